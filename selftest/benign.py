"""
Changes that keep every listed property (different tie-breaks, another admissible listing order, no memo at all,
other default durations / drawing margin): the checks must stay quiet on them (`python -m sim.selftest benign`).
(id, file relative to src/qce_circuit, old, new, note, properties to run)
"""
S = "structure/"
ALLP = ["C01", "C02", "C03", "C04", "C05", "C06", "C07", "C08", "C11", "C15", "C18"]
BENIGN = [
    ("B1-tie-break-first-of-deepest-layer", S + "intrf_circuit_operation_composite.py",
     "        for node in reversed(list(self.get_node_iterator())):\n            any_identifier_corresponds: bool = any(element in node.operation.channel_identifiers for element in channel_identifiers)\n            if any_identifier_corresponds:\n                return node\n        return None\n",
     "        layers = [[n for n in layer if isinstance(n, OperationGraphNode)] for layer in self.get_branch_iterator()]\n        for layer in reversed(layers):\n            for node in layer:\n                if any(element in node.operation.channel_identifiers for element in channel_identifiers):\n                    return node\n        return None\n",
     "implicit placement picks the first instead of the last of the equally deep channel-sharing operations", ["C01", "C02", "C05", "C06", "C08"]),
    ("B2-listing-layers-reversed", S + "graph_traversal/intrf_graph_structure.py",
     "        for branch in self.get_branch_iterator():\n            for node in branch:\n                yield node\n",
     "        for branch in self.get_branch_iterator():\n            for node in reversed(branch):\n                yield node\n",
     "another causal listing order: every relation-depth layer is listed in reverse (C06 / C08 / C11 are not in the list: their library-circuit clauses - unrolled listing is the concatenation, identical Stim program, flatten keeps the listing order - really break under this order and the checks say so)", ["C01", "C02", "C03", "C05", "C07", "C15", "C18"]),
    ("B3-memo-cleared-on-every-listing", S + "intrf_circuit_operation_composite.py",
     "        result: List[ICircuitOperation] = []\n        hand_down_relation: bool = self.has_relation\n",
     "        result: List[ICircuitOperation] = []\n        invalidate_start_time_memo()\n        hand_down_relation: bool = self.has_relation\n",
     "the start-time memo is additionally flushed on every listing (a memo is transparent)", ["C01", "C03", "C04", "C06", "C18"]),
    ("B4-barrier-quarter-length", S + "circuit_operations.py",
     "    duration_strategy: IDurationStrategy = field(init=False, default=FixedDurationStrategy(duration=0.5))\n",
     "    duration_strategy: IDurationStrategy = field(init=False, default=FixedDurationStrategy(duration=0.25))\n",
     "barriers are 0.25 long", ["C01", "C02", "C04", "C05", "C06", "C18"]),
    ("B5-hadamard-on-all-channels", S + "circuit_operations.py",
     "class Hadamard(SingleQubitOperation, ICircuitOperation):\n    \"\"\"\n    Hadamard operation.\n    \"\"\"\n    duration_strategy: IDurationStrategy = field(init=False, default=GlobalDurationStrategy(GlobalRegistryKey.MICROWAVE))\n\n    # region Interface Properties\n    @property\n    def channel_identifiers(self) -> List[ChannelIdentifier]:\n        \"\"\":return: Array-like of channel identifiers to which this operation applies to.\"\"\"\n        return [\n            ChannelIdentifier(_id=self.qubit_index, _channel=QubitChannel.MICROWAVE),\n",
     "class Hadamard(SingleQubitOperation, ICircuitOperation):\n    \"\"\"\n    Hadamard operation.\n    \"\"\"\n    duration_strategy: IDurationStrategy = field(init=False, default=GlobalDurationStrategy(GlobalRegistryKey.MICROWAVE))\n\n    # region Interface Properties\n    @property\n    def channel_identifiers(self) -> List[ChannelIdentifier]:\n        \"\"\":return: Array-like of channel identifiers to which this operation applies to.\"\"\"\n        return [\n            ChannelIdentifier(_id=self.qubit_index, _channel=QubitChannel.ALL),\n",
     "Hadamard occupies all channels of its qubit", ["C01", "C02", "C05", "C08", "C18"]),
    ("B6-latest-tie-prefers-last", S + "intrf_circuit_operation.py",
     "            if node.end_time > latest_node.end_time:\n", "            if node.end_time >= latest_node.end_time:\n",
     "among equally late group members the last one is reported", ["C01", "C02", "C05", "C06", "C11"]),
    ("B7-drawing-margin-two", "visualization/visualize_circuit/display_circuit.py",
     "        channel_width=end_time + 1.0,\n", "        channel_width=end_time + 2.0,\n",
     "figure margin 2.0 instead of 1.0", ["C18"]),
]
