import json
claimed = {
 "C01": ("relation equations and implicit placement", "every listed operation is checked locally against the start/end its own reported reference reports (equation per relation type, end=start+duration, unrelated members at their block's start); after every add the implementation's placement choice is checked against the admissible set of the reference model (deepest channel-sharing member, FOLLOWED_BY) and the relation forest + schedule of each quiescent replay is compared with the model's, through nesting and after unrolling", "6/C01"),
 "C02": ("listing completeness, causality, stability", "identity (every directly added leaf exactly once), content (leaf multiset and nesting forest equal to the model's), causal order against identity-resolved references, stability across repeated and interleaved listings (same objects, same order), get_last_entry/return value of add", "6/C02"),
 "C03": ("history independence (P vs Q)", "every observer answer of the perturbed execution P (interleaved sessions, observers between mutations, registry changes, nested override windows, memo flushes, sink failures inside observers, GC) is compared with the answer of the same observer on a quiescent replay Q(i) of only the mutations, and Q(i) with the full observation Q*(i) taken in another observer order", "6/C03"),
 "C04": ("duration spans contents", "reported duration of the circuit and of every sub-circuit = max end - min start over the leaves it contains (identity-resolved), 0 if empty; followers of a block start after all contained ends when nothing starts before the block; compared with the model's span; repeated at every observation point incl. duration-before-listing", "6/C04"),
 "C05": ("copy faithfulness and independence", "copies made by copy(), add-as-sub-circuit and unrolling are compared (a) implementation against implementation: canonical forest with per-class fields, relation types and schedule relative to own start of a copy vs its source / of a nested copy vs the child it came from, and (b) with the reference model, which keeps original and copy separate, so a field dropped by one of the 26 per-class copy() methods or a mutation leaking from one handle into the other shows on the untouched one", "6/C05, 10"),
 "C06": ("unrolling repetitions", "before/after-unroll transition oracle (Stim multiset and measurement count for every circuit; identical program and n-fold concatenated listing for library circuits; counts reset) plus model: content multiset = content x product of enclosing counts, counts reset to 1, idempotence, chained copies start at the latest end over relation leaves of what precedes (model schedule), registry-provided counts read at apply time, in-place transition visible through aliases", "6/C06"),
 "C07": ("acquisition indices", "on modifier-applied circuits whose measurements are indexed by the circuit's own registry (tracked by the model through nest/copy/unroll re-targeting) circuit-level indices are 0..N-1 and per-qubit indices 0..n_q-1 in listing order, never -1; by-qubit / by-tag filters return exactly the matching indices; M targets in to_stim follow listing order; monotone in start time for untouched library circuits", "6/C07"),
 "C08": ("Stim export", "same multiset of instructions as the translation of the reference model's content (the circuit as built), before/after-unroll transition oracle, and normalised to_stim output (fused targets split, REPEAT blocks expanded) equals the translation of the reported listing: table of documented gates, sub-circuits in place x count, unsupported kinds omitted, five detector target shapes, observables, coordinate shifts; measurement count", "6/C08"),
 "C11": ("flatten", "before/after-flatten transition oracle on modifier-applied library circuits (listing order, schedule, acquisition indices, Stim program identical; one open known finding D16) plus leaf multiset (kind, channels, duration, tag) unchanged against the model, no sub-circuit remains, second flatten changes nothing (P vs Q), taken before/after listings and through aliases", "6/C11"),
 "C15": ("OpenQL export", "two open known findings (D5a order of nested sub-programs, D5b duplicate kernel names) identified by exact signatures; same multiset of calls as the translation of the model's content; second export of the same circuit identical; thorough tier: 1600 runs against real OpenQL 0.12.2 (compiled cQASM parsed back); recorded program/kernel call sequence (gate name + qubits, cz + barrier + update_ph x2, wait with integer duration, sub-programs in place x count) equals the translation of the reported listing; unsupported omitted; names repeatable across exports (P vs Q); exporter must not raise (duplicate kernel names are enforced by the recording platform as real OpenQL does)", "6/C15"),
 "C18": ("drawing positions and side effects", "plot_circuit on every drawable circuit with permutations/prefixes of occupied channels, unknown channels, label maps, compact and non-compact, inside outer override windows: rows, labels, pivots within [start,end] of the clean schedule under the drawing's durations (itself checked against the model), width = latest end + margin, unknown channel rejected; every observation after a drawing (successful or aborted by a sink failure) equals the quiescent replay; global duration lookup restored", "6/C18"),
}
na = {
 "C09": "execution record of constructor output is a pure function of (distance, state, cycles, chain): no call sequence, shared state or fault for a simulator to schedule; simulating the quantum circuit is not this technique family",
 "C10": "overlap-freedom of constructor output is a function of (constructor input, duration configuration); its only run-time dimension (configuration changing while a circuit is alive) is C03's subject and is exercised there on adopted library circuits",
 "C12": "index-kernel tiling is stateless integer arithmetic over an argument list: input generation only, nothing to interleave or fault",
 "C13": "kernel vs constructed circuit agreement compares two pure functions of the same arguments; no history or schedule dependence",
 "C14": "noise dressing is a pure function of (Stim circuit, settings, index map); settings reach it as an argument",
 "C16": "simultaneous-gate acceptance on Surface-17 is a predicate over constant tables; exhaustive enumeration would be model checking, not simulation",
 "C17": "executability of shipped/derived layouts concerns constant tables and a filter over argument subsets; no state, order or fault involved",
 "C19": "identifier matching/equality/de-duplication are algebraic laws of pure functions of their inputs",
}
checks=[]
for pid,(tech,text,ref) in claimed.items():
    checks.append({
      "property_id": pid,
      "quick_cmd": f"./check {pid} --tier quick",
      "thorough_cmd": f"./check {pid} --tier thorough",
      "evidence_file": f"evidence/{pid}.json",
      "replay_cmd_template": "./check --replay {path}",
      "engine": "qcosim",
      "level_claimed": {"category": "exploration", "text": "seeded search over call histories, session interleavings, configuration windows and fault placements with an oracle at every cross-checked observation point: " + text + ". Sampling with stated bounds, no claim of exhaustiveness.", "design_ref": "DESIGN.md " + ref},
      "level_note": "trusted: the reference model (sim/model.py, written from the property statements), the canonical-forest resolution through the public API (sim/canon.py, sim/observe.py), exact dyadic float arithmetic, the recording OpenQL fake; bounds: quick <=28 steps / <=4 qubits, thorough <=42 steps / <=5 qubits, 1-2% long runs (110-300 steps, <=320 operations per circuit), nesting depth <=3",
      "technique": "deterministic simulation with fault injection: seeded scheduler over caller sessions / observers / override windows / memo flushes / sink failures, P-vs-quiescent-replay and reference-model oracles (" + tech + ")",
    })
m = {
 "version": 1,
 "setup_cmd": "sh ./setup.sh",
 "hooks": {"guard": "MINISEAN_QCOCIRCUITS_VERIF", "enable": "no source hook is needed: the world (sim/world.py) installs SimFS, sink gates and taps on module/class attributes before importing /repo/src; the guard variable is exported by the world for completeness", "baseline_off_cmd": "cd /repo && /venv/bin/python -m pytest -ra -q -p no:cacheprovider --timeout=900 --continue-on-collection-errors", "source_commits": [], "add_only": True},
 "engines": [{"name": "qcosim", "path": "sim/", "serves_properties": list(claimed), "kind_free_text": "in-process deterministic simulator: seeded scheduler of caller sessions, observers, configuration windows and faults over the real library, with quiescent replays and a pure-Python reference model as oracles"}],
 "checks": checks,
 "not_applicable": [{"property_id": k, "reason": v} for k,v in na.items()],
 "notes": "See DESIGN.md (sections 10-13 describe what was built). Exit 2 = harness problem (never pass, never violation). known_findings.json lists open findings (printed as KNOWN-FINDING lines) and the 14 repaired defects with their fix: commits and replays under findings/. python -m sim.selftest determinism|mutants|seeded|reverts proves determinism and sensitivity.",
}
json.dump(m, open('/verif/MANIFEST.json','w'), indent=1)
