#!/venv/bin/python
"""Confirm a sub-agent's seeded change in a scratch worktree of /repo (outside /repo and /verif) and keep it under
/verif/seeded/<id>/ (patch.diff, demo.py, meta.json). Usage: intake_seed.py <out_dir> <property> [k ...]"""
import json, os, shutil, subprocess, sys, tempfile

args = [a for a in sys.argv[1:] if not a.startswith("--id=")]
ids = [a[5:] for a in sys.argv[1:] if a.startswith("--id=")]
out_dir, prop = args[0], args[1]
ks = args[2:] or ["1", "2"]
VERIF = os.path.dirname(os.path.dirname(os.path.abspath(__file__)))


def run(cmd, cwd, env=None, timeout=900):
    e = dict(os.environ)
    e.update(env or {})
    r = subprocess.run(cmd, cwd=cwd, env=e, capture_output=True, text=True, timeout=timeout)
    return r.returncode, (r.stdout + r.stderr)


for k in ks:
    patch = os.path.join(out_dir, f"patch{k}.diff")
    demo = os.path.join(out_dir, f"demo{k}.py")
    meta = os.path.join(out_dir, f"meta{k}.json")
    if not (os.path.exists(patch) and os.path.exists(demo)):
        print(f"{prop}-{k}: missing files")
        continue
    wt = tempfile.mkdtemp(prefix="seedchk_")
    os.rmdir(wt)
    rc, o = run(["git", "-C", "/repo", "worktree", "add", "-q", "--detach", wt, "HEAD"], "/")
    env = {"PYTHONPATH": os.path.join(wt, "src"), "MPLBACKEND": "Agg", "TQDM_DISABLE": "1"}
    try:
        rc0, o0 = run([sys.executable, demo], wt, env)
        rc, o = run(["git", "apply", patch], wt)
        if rc != 0:
            print(f"{prop}-{k}: patch does not apply to HEAD: {o[:300]}")
            continue
        rct, ot = run([sys.executable, "-m", "pytest", "-q", "-p", "no:cacheprovider"], wt, env)
        tail = (ot.strip().splitlines() or ["?"])[-1]
        rc1, o1 = run([sys.executable, demo], wt, env)
        ok = rc0 == 0 and rct == 0 and "61 passed" in tail and rc1 != 0
        print(f"{prop}-{k}: demo on clean tree rc={rc0}; with change: tests '{tail}', demo rc={rc1} -> {'CONFIRMED' if ok else 'REJECTED'}")
        if not ok:
            print(o0[-400:], o1[-400:])
            continue
        dst = os.path.join(VERIF, "seeded", ids[0] if ids else f"{prop}-{k}")
        os.makedirs(dst, exist_ok=True)
        shutil.copy(patch, os.path.join(dst, "patch.diff"))
        shutil.copy(demo, os.path.join(dst, "demo.py"))
        m = json.load(open(meta)) if os.path.exists(meta) else {}
        m["property"] = prop
        m["confirmed"] = {"demo_clean_tree_rc": rc0, "tests_with_change": tail, "demo_with_change_rc": rc1,
                          "demo_output_with_change": o1[-600:], "repo_rev": subprocess.run(["git", "-C", "/repo", "rev-parse", "--short", "HEAD"], capture_output=True, text=True).stdout.strip(),
                          "how": "scratch worktree of /repo HEAD: demo (PASS), git apply patch, pytest (61 passed), demo (FAIL); worktree removed"}
        json.dump(m, open(os.path.join(dst, "meta.json"), "w"), indent=1)
    finally:
        run(["git", "-C", "/repo", "worktree", "remove", "--force", wt], "/")
