#!/venv/bin/python
"""Summarise selftest/results/*.json as markdown (appended to DESIGN.md section 12 by hand)."""
import json, os, collections
R = os.path.join(os.path.dirname(os.path.dirname(os.path.abspath(__file__))), "selftest", "results")
for name in ("findings", "seeded", "mutants", "reverts", "benign"):
    p = os.path.join(R, name + ".json")
    if not os.path.exists(p):
        print(f"* {name}: no results")
        continue
    res = json.load(open(p))
    c = collections.Counter(r["status"] for r in res)
    print(f"* {name}: {len(res)} run - " + ", ".join(f"{v} {k}" for k, v in sorted(c.items())))
    for r in res:
        if r["status"] not in ("CAUGHT", "NOT-APPLICABLE"):
            print(f"    - {r['id']} ({r.get('property')}): {r['status']} {r.get('oracles', '')}")
