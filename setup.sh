#!/bin/sh
# Offline setup: nothing is built or cached; only verify that /venv can import what the checks need.
set -e
cd "$(dirname "$0")"
mkdir -p .work evidence replays
/venv/bin/python - <<'PY'
import sys
sys.path.insert(0, "/repo/src")
import stim, matplotlib, yaml, numpy, openql  # noqa
print("qcosim setup ok: python", sys.version.split()[0], "stim", stim.__version__, "matplotlib", matplotlib.__version__)
PY
