"""
Seeded generation of run descriptors (DESIGN.md 3.2). One `random.Random` decides everything: the swarm
configuration first, then every step. The generator keeps a shadow reference model only to emit *valid*
programs (live relation targets, caps on size); the shadow never decides an oracle.
"""
import os
import random

from sim.lib import KINDS
from sim.model import Model, TAKES_DUR, TAKES_CHAN, NO_REL, ModelError
from sim.world import BOOT_CONFIGS

DYADIC = [0.0, 0.25, 0.5, 1.0, 1.5, 2.0, 3.0, 5.0, 7.0]
CHANS = ["ALL", "MW", "FL", "RO"]
REL_TYPES = ["FOLLOWED_BY", "JOINED_START", "JOINED_END"]
ALL_KINDS = list(KINDS)
STATES = ["ZERO", "ONE", "PLUS", "MINUS", "PLUS_I", "MINUS_I"]

BASE = {
    "mut": {"NEW": 6, "ADD_OP": 42, "ADD_OP_IN": 3, "ADD_SUB": 10, "ADD_LIVE": 2, "COPY": 3, "APPLY": 5, "FLATTEN": 2, "SET_DUR": 3,
            "SET_REP": 2, "OVR_ENTER": 3, "OVR_LEAVE": 3, "SET_INIT": 1, "NEW_LIB": 1},
    "obs": {"LIST": 6, "LIST_TWICE": 2, "TIMES": 8, "DURATION": 4, "COMPOSITES": 3, "COMP_TIMES": 2,
            "CHANNELS": 1, "ACQ": 3, "LAST": 1, "STIM": 3, "OPENQL": 2, "PLOT": 2, "REPR": 1, "COPYOBS": 2,
            "FULL": 2},
    "flt": {"FLUSH": 3, "SINK_FAIL": 3, "GC": 1, "IDLE": 1, "DROP": 1},
    "class": {"mut": 60, "obs": 30, "flt": 10},
    "p_rel": 0.3, "p_reps": 0.35, "p_regdur": 0.2, "p_regrep": 0.25, "lib": True,
    "kinds": None, "force_kinds": [], "max_steps": 28, "min_steps": 6, "p_long": 0.008,
}


def _merge(base, over):
    out = {k: (dict(v) if isinstance(v, dict) else v) for k, v in base.items()}
    for k, v in over.items():
        if isinstance(v, dict):
            out[k].update(v)
        else:
            out[k] = v
    return out


PROFILES = {
    "C01": _merge(BASE, {"p_subrel": 0.15, "mut": {"ADD_OP": 50, "ADD_OP_IN": 5, "ADD_SUB": 12, "ADD_LIVE": 4, "APPLY": 6, "COPY": 1, "FLATTEN": 0, "NEW_LIB": 0, "SET_DUR": 6},
                         "obs": {"TIMES": 12, "FULL": 12, "PLOT": 2, "OPENQL": 0}, "p_rel": 0.45, "p_regdur": 0.3,
                         "flt": {"SINK_FAIL": 0}, "class": {"mut": 66, "obs": 30, "flt": 4}}),
    "C02": _merge(BASE, {"mut": {"ADD_OP": 50, "ADD_OP_IN": 8, "ADD_SUB": 14, "ADD_LIVE": 4, "APPLY": 3, "FLATTEN": 1, "NEW_LIB": 0, "SET_DUR": 1, "OVR_ENTER": 1, "OVR_LEAVE": 1},
                         "obs": {"LIST": 12, "LIST_TWICE": 10, "LAST": 5, "COMPOSITES": 5, "FULL": 5, "PLOT": 0, "OPENQL": 0},
                         "p_rel": 0.4, "flt": {"SINK_FAIL": 0}, "class": {"mut": 62, "obs": 34, "flt": 4}}),
    "C03": _merge(BASE, {"class": {"mut": 48, "obs": 38, "flt": 14}, "mut": {"SET_DUR": 6, "OVR_ENTER": 5, "OVR_LEAVE": 5, "APPLY": 6},
                         "p_regdur": 0.35}),
    "C04": _merge(BASE, {"mut": {"ADD_OP": 50, "ADD_OP_IN": 6, "ADD_SUB": 14, "ADD_LIVE": 4, "APPLY": 3, "FLATTEN": 0, "NEW_LIB": 0, "COPY": 1, "SET_DUR": 6},
                         "obs": {"DURATION": 8, "TIMES": 12, "COMP_TIMES": 6, "FULL": 10, "PLOT": 2, "OPENQL": 0, "STIM": 1},
                         "p_rel": 0.6, "p_regdur": 0.3, "flt": {"SINK_FAIL": 0}, "class": {"mut": 64, "obs": 32, "flt": 4},
                         "kinds_bias": ["Wait", "SingleQubitOperation", "TwoQubitOperation", "VirtualVacant"]}),
    "C05": _merge(BASE, {"mut": {"ADD_OP": 40, "ADD_SUB": 16, "COPY": 12, "APPLY": 5, "FLATTEN": 1, "NEW_LIB": 0},
                         "obs": {"COPYOBS": 6, "FULL": 8, "TIMES": 8, "ACQ": 3, "PLOT": 0, "OPENQL": 0},
                         "p_rel": 0.4, "flt": {"SINK_FAIL": 0}, "class": {"mut": 62, "obs": 32, "flt": 6},
                         "all_kinds": True}),
    "C06": _merge(BASE, {"mut": {"ADD_OP": 40, "ADD_SUB": 16, "APPLY": 12, "COPY": 1, "FLATTEN": 0, "SET_REP": 5, "NEW_LIB": 2},
                         "obs": {"FULL": 8, "TIMES": 10, "COMPOSITES": 5, "LIST": 6, "PLOT": 0, "OPENQL": 0},
                         "p_reps": 0.7, "p_regrep": 0.35, "flt": {"SINK_FAIL": 0}, "class": {"mut": 62, "obs": 32, "flt": 6}}),
    "C07": _merge(BASE, {"mut": {"ADD_OP": 46, "ADD_SUB": 16, "APPLY": 10, "FLATTEN": 3, "COPY": 1, "NEW_LIB": 1},
                         "obs": {"ACQ": 16, "STIM": 5, "FULL": 5, "PLOT": 0, "OPENQL": 0},
                         "force_kinds": ["DispersiveMeasure"], "p_meas": 0.4, "p_reps": 0.5,
                         "flt": {"SINK_FAIL": 0}, "class": {"mut": 62, "obs": 32, "flt": 6}}),
    "C08": _merge(BASE, {"mut": {"ADD_OP": 48, "ADD_SUB": 14, "APPLY": 8, "FLATTEN": 3, "COPY": 3, "NEW_LIB": 2},
                         "obs": {"STIM": 20, "LIST": 4, "FULL": 4, "PLOT": 0, "OPENQL": 0},
                         "all_kinds": True, "p_reps": 0.5, "flt": {"SINK_FAIL": 2}, "class": {"mut": 60, "obs": 33, "flt": 7}}),
    "C11": _merge(BASE, {"p_via_structure": 0.3, "p_flatten_fail": 0.2, "mut": {"ADD_OP": 44, "ADD_SUB": 16, "APPLY": 6, "FLATTEN": 12, "COPY": 1, "NEW_LIB": 3},
                         "obs": {"FULL": 8, "LIST": 6, "TIMES": 6, "ACQ": 3, "STIM": 4, "PLOT": 0, "OPENQL": 0},
                         "p_rel": 0.0, "flt": {"SINK_FAIL": 0}, "class": {"mut": 62, "obs": 32, "flt": 6}}),
    "C15": _merge(BASE, {"mut": {"ADD_OP": 48, "ADD_SUB": 12, "APPLY": 5, "FLATTEN": 2, "COPY": 1, "NEW_LIB": 1},
                         "obs": {"OPENQL": 22, "LIST": 4, "FULL": 3, "PLOT": 0, "STIM": 2},
                         "all_kinds": True, "flt": {"SINK_FAIL": 3}, "class": {"mut": 60, "obs": 33, "flt": 7}}),
    "C18": _merge(BASE, {"mut": {"ADD_OP": 46, "ADD_SUB": 10, "APPLY": 6, "FLATTEN": 1, "COPY": 0, "NEW_LIB": 2,
                                 "OVR_ENTER": 6, "OVR_LEAVE": 5, "SET_INIT": 3},
                         "obs": {"PLOT": 30, "TIMES": 10, "LIST": 4, "ACQ": 3, "DURATION": 3, "FULL": 3, "OPENQL": 0, "STIM": 1, "COPYOBS": 0},
                         "drawable_only": True, "flt": {"SINK_FAIL": 5, "FLUSH": 3}, "class": {"mut": 55, "obs": 35, "flt": 10}}),
}

DRAWABLE = [k for k in ALL_KINDS if k not in ("DetectorOperation", "LogicalObservableOperation", "CoordinateShiftOperation")]


def _wchoice(rng, weights):
    items = [(k, w) for k, w in weights.items() if w > 0]
    tot = sum(w for _, w in items)
    x = rng.random() * tot
    for k, w in items:
        x -= w
        if x < 0:
            return k
    return items[-1][0]


class Gen:
    def __init__(self, seed, profile_name, boot_id=None):
        self.rng = random.Random(seed)
        self.pname = profile_name
        self.P = PROFILES[profile_name]
        rng = self.rng
        # ---- swarm configuration, drawn first
        self.boot_id = boot_id or rng.choice(list(BOOT_CONFIGS))
        self.n_sessions = rng.choice([1, 1, 2, 2, 3])
        self.tier = os.environ.get("QCOSIM_TIER", "quick")
        deep = self.tier == "thorough"
        self.budget = rng.randint(self.P["min_steps"], self.P["max_steps"] + (14 if deep else 0))
        # size is a dimension too: a few runs build long / wide circuits (few observers, lifted size caps)
        self.long = rng.random() < self.P.get("p_long", 0.01) * (2.5 if deep else 1.0)
        if self.long:
            self.budget = rng.randint(110, 300)
        self.n_qubits = rng.randint(1, 5 if os.environ.get("QCOSIM_TIER") == "thorough" else 4)
        self.depth_cap = rng.randint(1, 3)
        pool = DRAWABLE if self.P.get("drawable_only") else ALL_KINDS
        if self.P.get("all_kinds") and rng.random() < 0.5:
            kinds = list(pool)
        else:
            kinds = rng.sample(pool, rng.randint(4, min(12, len(pool))))
        for k in self.P.get("force_kinds", []):
            if k not in kinds:
                kinds.append(k)
        for k in self.P.get("kinds_bias", []):
            if rng.random() < 0.7 and k not in kinds:
                kinds.append(k)
        if self.n_qubits < 2:
            kinds = [k for k in kinds if KINDS[k][0] != 2] or ["Rx180", "Wait", "Reset", "Barrier"]
        self.kinds = kinds
        self.durs = rng.sample(DYADIC, rng.randint(2, 6))
        self.p_rel = self.P["p_rel"] * rng.choice([0.0, 0.5, 1.0, 1.0, 1.5])
        fault_on = rng.random() < 0.7
        self.class_w = dict(self.P["class"])
        if not fault_on:
            self.class_w["flt"] = 0
        self.fault_free = not fault_on
        self.flt_w = dict(self.P["flt"])
        for k in list(self.flt_w):
            if rng.random() < 0.25:
                self.flt_w[k] = 0
        if self.long:
            self.class_w = {"mut": 96, "obs": 3, "flt": 1 if fault_on else 0}
        self.leaf_cap = 320 if self.long else 14
        self.unroll_cap = 400 if self.long else 60
        self.model = Model(BOOT_CONFIGS[self.boot_id] or BOOT_CONFIGS["shipped"])
        self.steps = []
        self.dropped = set()
        self.consumed = {}     # handle of a live-nested circuit -> handle of the circuit it sits in
        self.in_scenario = False
        self.force = {}
        self.sess_handles = {s: [] for s in range(self.n_sessions)}
        self.decl = set()
        self.counter = {s: 0 for s in range(self.n_sessions)}
        self.ovr_depth = 0
        self.lib_handles = set()
        self.flat = set()
        self.n_checks = 0
        self.applied = set()
        self.last_was_mut = False

    # ------------------------------------------------------------ helpers
    def swarm(self):
        return {"tier": self.tier, "long": self.long, "sessions": self.n_sessions, "qubits": self.n_qubits, "kinds": self.kinds, "durations": self.durs,
                "depth_cap": self.depth_cap, "budget": self.budget, "fault_free": self.fault_free,
                "p_rel": self.p_rel}

    def fresh(self, s):
        n = f"{'abc'[s]}{self.counter[s]}"
        self.counter[s] += 1
        return n

    def all_handles(self):
        return [h for s in self.sess_handles.values() for h in s]

    def free(self, hs):
        """handles of circuits that are not live-nested in another circuit (and not constructed with a relation to an
        operation of another circuit: those are built and then nested there, nothing else)"""
        return [h for h in hs if h not in self.consumed and h not in self.model.bound]

    def bound_children_of(self, parent):
        m = self.model
        return [h for h in self.all_handles() if h in m.bound and h not in self.dropped and h not in self.consumed
                and m.roots[h].rel is not None and m.roots[h].rel[0] != "MULTI" and m.is_member(m.roots[parent], m.roots[h].rel[1])]

    def live_add_ok(self, name, block, st):
        """An operation added later to a block that already sits in a circuit (through the handle add() returned, or
        through the handle of a live-nested circuit): the block was placed according to the channels it had then, so
        only channels the block already occupies keep that placement meaningful - or a qubit nothing in the whole
        circuit uses yet (such an operation starts with its block; before the repair D18 it reported block-relative
        times until the next listing when the block was related to something)."""
        from sim.model import kind_channels
        m = self.model
        kind = st["kind"]
        chain = m.chain_of(m.roots[name])
        have = m.channels_of(block)
        used_qubits = {c[0] for c in m.channels_of(chain[-1])}
        new_ch = kind_channels(kind, st["q"], st.get("chan") if kind in TAKES_CHAN else None)
        if not all(c[0] not in used_qubits or any(e == c or (e[0] == c[0] and e[1] == "ALL") for e in have) for c in new_ch):
            return False
        return True

    def emit(self, st):
        self.steps.append(st)

    def rand_cfg(self):
        rng = self.rng
        pool = [0.0, 0.25, 0.5, 1.0, 1.5, 2.0, 3.0]
        if rng.random() < 0.3:
            # keep some keys equal to the drawing's own durations (the one-sided cache clear case)
            base = {"readout": 2.0, "microwave": 1.0, "flux": 1.0, "reset": 2.0}
            k = rng.choice(list(base))
            base[k] = rng.choice(pool)
            return base
        return {k: rng.choice(pool) for k in ("readout", "microwave", "flux", "reset")}

    def unrolled(self, name):
        try:
            return self.model.unrolled_leaf_count(name=name)
        except Exception:
            return 10 ** 6

    # ------------------------------------------------------------ step makers
    def mk_new(self, s):
        rng = self.rng
        name = self.fresh(s)
        if "reps" in self.force:
            reps = self.force.pop("reps")
        elif rng.random() < self.P["p_reps"]:
            if rng.random() < self.P["p_regrep"]:
                reps = {"reg": ["rr0", rng.choice(["k0", "k1"])]}
            else:
                reps = {"fixed": rng.choice([1, 2, 2, 3])}
        else:
            reps = {"fixed": 1}
        st = {"s": s, "op": "NEW", "c": name, "reps": reps}
        if (rng.random() < self.P.get("p_subrel", 0.04) and not self.in_scenario) or self.force.pop("subrel", False):
            # a circuit constructed with a relation to an operation of another circuit, to be nested there
            m = self.model
            cands = [(h, k) for h in self.free(self.sess_handles[s]) if h in self.decl and h not in self.lib_handles and h not in self.flat and h not in m.bound
                     for k, e in enumerate(m.entries[h]) if m.is_member(m.roots[h], e) and m.roots[h].rel_known]
            if cands:
                h, k = rng.choice(cands)
                st["rel"] = [rng.choice(REL_TYPES), h, k]
        self.emit(st)
        self.model.new(name, reps, st.get("rel"))
        self.sess_handles[s].append(name)
        self.decl.add(name)
        return True

    def mk_add_op(self, s):
        rng = self.rng
        hs = [h for h in self.sess_handles[s]]
        if not hs:
            return self.mk_new(s)
        name = self.force.pop("handle", None) or rng.choice(hs)
        if self.model.leaf_count(name) >= self.leaf_cap or self.unrolled(name) >= self.unroll_cap:
            return False
        if "kind" in self.force:
            kind = self.force.pop("kind")
        elif self.P.get("p_meas") and rng.random() < self.P["p_meas"]:
            kind = "DispersiveMeasure"
        else:
            kind = rng.choice(self.kinds)
        arity, params = KINDS[kind]
        if arity == 2 and self.n_qubits < 2:
            kind, (arity, params) = "Wait", KINDS["Wait"]
        st = {"s": s, "op": "ADD_OP", "c": name, "kind": kind}
        if "multi" in params:
            k = rng.randint(1, self.n_qubits)
            st["q"] = rng.sample(range(self.n_qubits), k)
        elif arity == 2:
            st["q"] = rng.sample(range(self.n_qubits), 2)
        else:
            st["q"] = [rng.randrange(self.n_qubits)]
        if kind in TAKES_DUR:
            if "dur" in self.force:
                st["dur"] = self.force.pop("dur")
            elif rng.random() < self.P["p_regdur"]:
                st["dur"] = {"reg": ["dr0", rng.choice(["k0", "k1", "k2"])]}
            elif rng.random() < 0.9:
                st["dur"] = {"fixed": rng.choice(self.durs)}
        if kind in TAKES_CHAN and rng.random() < 0.7:
            st["chan"] = rng.choice(CHANS)
        if kind == "DispersiveMeasure":
            decls = [h for h in self.all_handles() if h in self.decl]
            r = rng.random()
            if r < 0.7 or not decls:
                st["areg"] = name if name in self.decl else (decls[0] if decls else name)
            else:
                st["areg"] = rng.choice(decls)
            if st["areg"] not in self.decl:
                return False
            st["tag"] = rng.choice(["", "", "x", "y", "final"])
        if kind in ("DetectorOperation", "LogicalObservableOperation"):
            L = rng.randint(0, 6)
            d = {"last_acquisition_index": L, "main_target": rng.randint(0, L)}
            if kind == "DetectorOperation":
                shape = rng.randrange(6)
                if shape == 1:
                    d["reference_offset"] = rng.randint(0, 5)
                elif shape == 2:
                    d["secondary_target"] = rng.randint(0, L)
                elif shape == 3:
                    d["secondary_target"] = rng.randint(0, L)
                    d["reference_offset"] = rng.randint(1, 6)
                elif shape == 4:
                    d["secondary_target"] = rng.randint(0, L)
                    d["reference_offset"] = rng.randint(1, 6)
                    d["secondary_offset"] = rng.randint(0, 4)
                elif shape == 5:
                    d = {}
            st["det"] = d
        if kind == "CoordinateShiftOperation":
            st["shift"] = [rng.randint(0, 3), rng.randint(0, 3)]
        root = self.model.roots[name]
        if kind not in NO_REL and rng.random() < self.p_rel:
            live = [k for k, e in enumerate(self.model.entries[name]) if self.model.is_member(root, e)]
            if live:
                # bias: shallow explicit relation (an early entry) half of the time
                k = rng.choice(live[: max(1, len(live) // 2)]) if rng.random() < 0.5 else rng.choice(live)
                st["rel"] = [rng.choice(REL_TYPES), k]
        if name in self.consumed and not self.live_add_ok(name, root, st):
            return False
        self.emit(st)
        self.model.add_op(name, st, {"checked": False, "rt": "FOLLOWED_BY", "ref_key": None})
        return True

    def mk_add_op_in(self, s):
        """add an operation to a nested sub-circuit through the handle add() returned (no explicit relation)"""
        rng = self.rng
        m = self.model
        cands = []
        for name in self.sess_handles[s]:
            if name in self.lib_handles or name in self.flat:
                continue
            root = m.roots[name]
            for k, e in enumerate(m.entries[name]):
                if e.is_comp and m.is_member(root, e) and e.rel_known:
                    cands.append((name, k))
        if not cands:
            return False
        name, k = rng.choice(cands)
        if self.unrolled(name) >= 60:
            return False
        kinds = [x for x in self.kinds if x not in ("DispersiveMeasure",)]
        if not kinds:
            return False
        kind = rng.choice(kinds)
        arity, params = KINDS[kind]
        st = {"s": s, "op": "ADD_OP_IN", "c": name, "k": k, "kind": kind}
        if "multi" in params:
            st["q"] = rng.sample(range(self.n_qubits), rng.randint(1, self.n_qubits))
        elif arity == 2:
            st["q"] = rng.sample(range(self.n_qubits), 2)
        else:
            st["q"] = [rng.randrange(self.n_qubits)]
        if kind in TAKES_DUR and rng.random() < 0.9:
            st["dur"] = {"fixed": rng.choice(self.durs)}
        if kind in TAKES_CHAN and rng.random() < 0.7:
            st["chan"] = rng.choice(CHANS)
        if kind in ("DetectorOperation", "LogicalObservableOperation"):
            st["det"] = {"last_acquisition_index": 3, "main_target": rng.randint(0, 3)}
        if kind == "CoordinateShiftOperation":
            st["shift"] = [rng.randint(0, 3), rng.randint(0, 3)]
        if not self.live_add_ok(name, m.entries[name][k], st):
            return False
        self.emit(st)
        try:
            m.add_op_in(name, st, {"checked": False, "rt": "FOLLOWED_BY", "ref_key": None})
        except ModelError:
            self.steps.pop()
            return False
        return True

    def mk_add_sub(self, s):
        rng = self.rng
        parents = [h for h in self.sess_handles[s] if h in self.decl and h not in self.consumed]
        if not parents:
            return False
        parent = self.force.pop("parent", None) or rng.choice(parents)
        if rng.random() < 0.8:
            cands = self.free([h for h in self.sess_handles[s] if h != parent])
        else:
            cands = self.free([h for h in self.all_handles() if h != parent])
        cands = [h for h in cands if self.model.roots[h] is not self.model.roots[parent]]
        bc = self.bound_children_of(parent)
        if bc and rng.random() < 0.6:
            cands = bc
        if "child" in self.force:
            cands = [self.force.pop("child")]
        if not cands:
            return False
        child = rng.choice(cands)
        m = self.model
        if m.max_depth(m.roots[child]) + 1 + m.max_depth(m.roots[parent]) > self.depth_cap + 1:
            if m.max_depth(m.roots[child]) + 1 > self.depth_cap:
                return False
        if self.unrolled(parent) + self.unrolled(child) > 70 or m.leaf_count(parent) + m.leaf_count(child) > 40:
            return False
        st = {"s": s, "op": "ADD_SUB", "c": parent, "child": child}
        if child not in m.bound and rng.random() < self.P.get("p_via_structure", 0.12):
            st["via"] = "structure"
        self.emit(st)
        c, v = m.add_sub(parent, child, via_structure=st.get("via") == "structure")
        if m.roots[parent].rel_known and v.get("adm"):
            c.rel = ("FOLLOWED_BY", v["adm"][-1])
        if child in self.lib_handles:
            self.lib_handles.add(parent)
        return True

    def mk_add_live(self, s):
        """nest the live structure of another circuit through add_operation (no copy): two circuits, one block"""
        rng = self.rng
        m = self.model
        parents = self.free([h for h in self.sess_handles[s] if h in self.decl and h not in self.lib_handles and h not in self.flat and h not in m.bound])
        if not parents:
            return False
        parent = self.force.pop("parent", None) or rng.choice(parents)
        cands = []
        for h in self.all_handles():
            if h == parent or h not in self.decl or h in self.lib_handles or h in self.flat or h in self.consumed or h in m.bound:
                continue
            r = m.roots[h]
            if r is m.roots[parent] or not r.rel_known:
                continue
            if sum(1 for x in m.roots.values() if x is r) != 1:
                continue   # only circuits held through a single handle
            cands.append(h)
        if "child" in self.force:
            forced = self.force.pop("child")
            cands = [h for h in cands if h == forced]
        if not cands:
            return False
        child = rng.choice(cands)
        if m.max_depth(m.roots[child]) + 1 > self.depth_cap and not self.in_scenario:
            return False
        if self.unrolled(parent) + self.unrolled(child) > 70 or m.leaf_count(parent) + m.leaf_count(child) > 40:
            return False
        try:
            c, v = m.add_live(parent, child)
        except ModelError:
            return False
        self.emit({"s": s, "op": "ADD_LIVE", "c": parent, "child": child})
        if m.roots[parent].rel_known and v.get("adm"):
            c.rel = ("FOLLOWED_BY", v["adm"][-1])
        m.settle_live(c)
        self.consumed[child] = parent
        return True

    def mk_copy(self, s):
        hs = self.free(self.sess_handles[s])
        if not hs:
            return False
        name = self.force.pop("handle", None) or self.rng.choice(hs)
        as_name = self.fresh(s)
        self.emit({"s": s, "op": "COPY", "c": name, "as": as_name})
        self.model.copy(name, as_name)
        self.sess_handles[s].append(as_name)
        if name in self.lib_handles:
            self.lib_handles.add(as_name)
        if name in self.flat:
            self.flat.add(as_name)
        return True

    def mk_apply(self, s):
        hs = self.free(self.sess_handles[s])
        if not hs:
            return False
        name = self.force.pop("handle", None) or self.rng.choice(hs)
        if self.unrolled(name) > 120:
            return False
        as_name = self.fresh(s)
        self.emit({"s": s, "op": "APPLY", "c": name, "as": as_name})
        try:
            self.model.apply(name, as_name)
        except ModelError:
            self.model.alias(name, as_name)
        self.sess_handles[s].append(as_name)
        if name in self.decl:
            self.decl.add(as_name)
        for grp in (self.lib_handles, self.flat):
            if name in grp:
                grp.add(as_name)
        self.applied.add(name)
        self.applied.add(as_name)
        return True

    def mk_flatten(self, s):
        hs = self.free(self.sess_handles[s])
        if not hs:
            return False
        name = self.force.pop("handle", None) or self.rng.choice(hs)
        if self.model.holds_live(self.model.roots[name]):
            return False   # flattening rewrites the relation links of operations another circuit object holds too
        as_name = self.fresh(s)
        st = {"s": s, "op": "FLATTEN", "c": name, "as": as_name}
        if not self.fault_free and self.rng.random() < self.P.get("p_flatten_fail", 0.06) and self.model.leaf_count(name) >= 2:
            # fault: the n-th re-placement inside the rebuild raises (the generator cannot know whether n is reached)
            st["fail"] = self.rng.randint(1, max(1, self.model.leaf_count(name)))
        self.emit(st)
        self._model_flatten(name, as_name)
        self.sess_handles[s].append(as_name)
        if name in self.decl:
            self.decl.add(as_name)
        if name in self.lib_handles:
            self.lib_handles.add(as_name)
        self.flat.add(name)
        self.flat.add(as_name)
        return True

    def _model_flatten(self, name, as_name):
        m = self.model
        root = m.roots[name]
        leaves = m.listing(root)
        root.members[:] = leaves
        for n in leaves:
            n.rel = None
        root.rel_known = False
        m.alias(name, as_name)

    def mk_new_lib(self, s):
        rng = self.rng
        if not self.P.get("lib", True):
            return False
        name = self.fresh(s)
        ctor = self.force.pop("ctor", None) or rng.choice(["rep", "rep", "simp", "cal", "multi"])
        if ctor in ("rep", "simp"):
            # the simplified constructor turns the cycle count into a repetition count: 0 is outside ">= 1"
            cyc = rng.choice([0, 1, 1, 2, 2, 3]) if ctor == "rep" else rng.choice([1, 2, 2, 3])
            args = {"cycles": cyc, "state": [rng.choice(STATES[:2]) for _ in range(rng.choice([2, 2, 3]))]}
            if rng.random() < 0.25:
                args["refocus"] = False
        elif ctor == "multi":
            args = {"rounds": rng.sample([0, 1, 2], rng.randint(1, 2)), "state": [rng.choice(STATES[:2]) for _ in range(2)]}
        else:
            args = {"n": rng.randint(1, 3), "type": rng.choice(["QUBIT", "QUTRIT"])}
        self.emit({"s": s, "op": "NEW_LIB", "c": name, "ctor": ctor, "args": args})
        root = self.model.new(name, {"fixed": 1})
        root.rel_known = False
        root.dur_known = False
        self.sess_handles[s].append(name)
        self.decl.add(name)
        self.lib_handles.add(name)
        return True

    def mk_obs(self, s):
        rng = self.rng
        hs = self.all_handles() if rng.random() < 0.35 else self.sess_handles[s]
        hs = [h for h in hs if h not in self.model.bound]   # (their own times are those inside the other circuit)
        if not hs:
            return False
        name = rng.choice(hs)
        forced = self.force.pop("obs_handle", None)
        if forced:
            name = forced
        # bias towards recently created/mutated handles
        elif rng.random() < 0.5:
            for st in reversed(self.steps):
                if st["op"] in ("ADD_OP", "ADD_SUB", "APPLY", "FLATTEN", "COPY") and st.get("as", st["c"]) not in self.dropped and st.get("as", st["c"]) not in self.model.bound:
                    name = st.get("as", st["c"])
                    break
        what = self.force.pop("what", None) or _wchoice(rng, self.P["obs"])
        if what in ("PLOT", "LAST") and name not in self.decl:
            what = "TIMES"
        if name in self.lib_handles and what == "OPENQL":
            what = "STIM"
        st = {"s": s, "op": "OBS", "what": what, "c": name}
        if what == "PLOT":
            qs = sorted({c[0] for c in self.model.channels_of(self.model.roots[name])})
            r = rng.random()
            if qs and r < 0.55:
                perm = list(qs)
                rng.shuffle(perm)
                st["order"] = perm[: rng.randint(0, len(perm))]
            elif r < 0.70:
                bad = max(qs + [0]) + rng.randint(1, 3)
                perm = list(qs)
                rng.shuffle(perm)
                perm.insert(rng.randint(0, len(perm)), bad)
                st["order"] = perm
                st["unknown"] = True
            if rng.random() < 0.4 and qs:
                st["labels"] = {str(q): f"Q{q}{rng.choice('xyz')}" for q in rng.sample(qs, rng.randint(1, len(qs)))}
            st["compact"] = rng.random() < 0.8
        if what == "FULL" and rng.random() < 0.3:
            st["alt"] = True
        if self.n_checks < (2 if self.long else 4 if self.lib_handles else 12):
            st["check"] = True
            self.n_checks += 1
        self.emit(st)
        return True

    def mk_fault(self, s):
        rng = self.rng
        what = _wchoice(rng, self.flt_w) if any(self.flt_w.values()) else "IDLE"
        st = {"s": s, "op": what}
        if what == "FLUSH":
            st["which"] = rng.choice(["single", "multi", "both", "both"])
            self.emit(st)
            return True
        if what == "DROP":
            hs = self.free([h for h in self.all_handles() if h not in self.dropped])
            if len(hs) < 2:
                return False
            h = rng.choice(hs)
            for lst in self.sess_handles.values():
                if h in lst:
                    lst.remove(h)
            self.dropped.add(h)
            self.decl.discard(h)
            self.emit({"s": s, "op": "DROP", "c": h})
            return True
        if what == "SINK_FAIL":
            st["n"] = rng.choice([1, 1, 2, 3, 5, 8, 13, 21])
            self.emit(st)
            # a fault only matters with in-flight state: aim it at an observer that talks to a sink
            return self.mk_sink_observer(s)
        self.emit(st)
        return True

    def mk_sink_observer(self, s):
        rng = self.rng
        hs = [h for h in self.all_handles() if h in self.decl and h not in self.model.bound]
        if not hs:
            return True
        name = rng.choice(hs)
        w = {k: v for k, v in self.P["obs"].items() if k in ("PLOT", "STIM", "OPENQL") and v > 0}
        what = _wchoice(rng, w) if w else "STIM"
        if name in self.lib_handles and what == "OPENQL":
            what = "STIM"
        st = {"s": s, "op": "OBS", "what": what, "c": name}
        if what == "PLOT":
            st["compact"] = rng.random() < 0.85
        self.emit(st)
        # ... and look again afterwards
        if rng.random() < 0.8 and self.n_checks < 12:
            # look again: at the schedule / listing, or once more through the sink that just failed
            what2 = what if rng.random() < 0.4 else rng.choice(["TIMES", "TIMES", "LIST", "ACQ", "DURATION", "FULL"])
            self.emit({"s": s, "op": "OBS", "what": what2, "c": rng.choice(hs) if rng.random() < 0.3 else name, "check": True})
            self.n_checks += 1
        return True

    def mk_set_dur(self, s):
        rng = self.rng
        st = {"s": s, "op": "SET_DUR", "r": "dr0", "key": rng.choice(["k0", "k1", "k2"]), "v": rng.choice(DYADIC)}
        self.emit(st)
        self.model.dregs.setdefault("dr0", {})[st["key"]] = st["v"]
        return True

    def mk_set_rep(self, s):
        rng = self.rng
        key = rng.choice(["k0", "k1"])
        v = rng.choice([1, 2, 3])
        old = self.model.rregs.get("rr0", {}).get(key, 1)
        self.model.rregs.setdefault("rr0", {})[key] = v
        if any(self.unrolled(h) > 120 for h in self.all_handles()):
            self.model.rregs["rr0"][key] = old
            return False
        self.emit({"s": s, "op": "SET_REP", "r": "rr0", "key": key, "v": v})
        return True

    def mk_ovr_enter(self, s):
        if self.ovr_depth >= 2:
            return False
        cfg = self.rand_cfg()
        self.emit({"s": s, "op": "OVR_ENTER", "cfg": cfg})
        self.model.ovr.append(cfg)
        self.ovr_depth += 1
        return True

    def mk_ovr_leave(self, s):
        if self.ovr_depth == 0:
            return False
        self.emit({"s": s, "op": "OVR_LEAVE"})
        self.model.ovr.pop()
        self.ovr_depth -= 1
        return True

    def mk_set_init(self, s):
        hs = [h for h in self.sess_handles[s] if h in self.decl]
        if not hs:
            return False
        self.emit({"s": s, "op": "SET_INIT", "c": self.rng.choice(hs), "q": self.rng.randrange(self.n_qubits),
                   "state": self.rng.choice(STATES)})
        return True

    # ------------------------------------------------------------ scripted openings (then random continuation)
    def last_handle(self, s=0):
        return self.sess_handles[s][-1]

    def sc_lib_apply_flatten(self):
        """library circuit, unroll, (flatten), look - the flows the library's own multi-round constructor uses"""
        rng = self.rng
        self.force["ctor"] = rng.choice(["rep", "simp", "simp", "rep"])
        self.mk_new_lib(0)
        lib = self.last_handle()
        if rng.random() < 0.3:
            self.force.update({"obs_handle": lib, "what": rng.choice(["STIM", "TIMES", "LIST"])})
            self.mk_obs(0)
        self.force["handle"] = lib
        self.mk_apply(0)
        a = self.last_handle()
        if rng.random() < 0.5:
            self.force.update({"obs_handle": a, "what": rng.choice(["FULL", "STIM", "ACQ"])})
            self.mk_obs(0)
        if self.pname in ("C11", "C07") or rng.random() < 0.3:
            self.force["handle"] = a
            self.mk_flatten(0)
            a = self.last_handle()
        self.force.update({"obs_handle": a, "what": "FULL"})
        self.mk_obs(0)

    def sc_unroll_then_copy(self):
        """repeated block with ragged / zero-length / registry-timed branches, unrolled, durations changed, copied"""
        rng = self.rng
        self.force["reps"] = {"fixed": rng.choice([2, 3])}
        self.mk_new(0)
        blk = self.last_handle()
        for _ in range(rng.randint(2, 5)):
            self.force["handle"] = blk
            if rng.random() < 0.6:
                self.force["kind"] = rng.choice(["Wait", "VirtualVacant", "SingleQubitOperation", "Wait"])
                self.force["dur"] = rng.choice([{"reg": ["dr0", rng.choice(["k0", "k1"])]}, {"fixed": 0.0}, {"fixed": rng.choice(self.durs)}])
            self.mk_add_op(0)
        self.force["handle"] = blk
        self.mk_apply(0)
        a = self.last_handle()
        if rng.random() < 0.7:
            self.mk_set_dur(0)
        if rng.random() < 0.5:
            self.force["handle"] = a
            self.mk_copy(0)
        else:
            self.force["reps"] = {"fixed": 1}
            self.mk_new(0)
            par = self.last_handle()
            self.force.update({"parent": par, "child": a})
            self.mk_add_sub(0)
        self.force.update({"obs_handle": self.last_handle(), "what": "FULL"})
        self.mk_obs(0)

    def sc_nested_reps(self):
        """a repeated block that contains a repeated block, unrolled, listed"""
        rng = self.rng
        self.force["reps"] = {"fixed": rng.choice([2, 3])}
        self.mk_new(0)
        inner = self.last_handle()
        for _ in range(rng.randint(1, 3)):
            self.force["handle"] = inner
            self.mk_add_op(0)
        self.force["reps"] = {"fixed": rng.choice([1, 2, 2, 3])}
        self.mk_new(0)
        outer = self.last_handle()
        for _ in range(rng.randint(1, 3)):
            self.force["handle"] = outer
            self.mk_add_op(0)
        self.force.update({"parent": outer, "child": inner})
        self.mk_add_sub(0)
        for _ in range(rng.randint(0, 2)):
            self.force["handle"] = outer
            self.mk_add_op(0)
        self.force["handle"] = outer
        self.mk_apply(0)
        self.force.update({"obs_handle": self.last_handle(), "what": rng.choice(["FULL", "LIST", "STIM", "FULL"])})
        self.mk_obs(0)

    def sc_three_levels(self):
        """outer repeated block around a repeated block that holds two plain sub-circuits side by side"""
        rng = self.rng
        if self.n_qubits < 2:
            return self.sc_nested_reps()
        kids = []
        for q in (0, 1):
            self.force["reps"] = {"fixed": 1}
            self.mk_new(0)
            k = self.last_handle()
            kids.append(k)
            for _ in range(rng.randint(1, 2)):
                self.force.update({"handle": k, "kind": rng.choice(["Wait", "Wait", "Rx180", "Ry90"]), "dur": {"fixed": rng.choice([0.5, 1.0, 2.0, 3.0, 5.0])}})
                st_before = len(self.steps)
                self.mk_add_op(0)
                if len(self.steps) > st_before:
                    self.steps[-1]["q"] = [q]
                    # keep the shadow model in line with the forced qubit
                    n = self.model.entries[k][-1]
                    from sim.model import kind_channels
                    n.ch = kind_channels(n.kind, [q], self.steps[-1].get("chan"))
        self.force["reps"] = {"fixed": rng.choice([2, 2, 3])}
        self.mk_new(0)
        mid = self.last_handle()
        for k in kids:
            self.force.update({"parent": mid, "child": k})
            self.mk_add_sub(0)
        if rng.random() < 0.8:
            self.force.update({"handle": mid, "kind": rng.choice(["Ry90", "Rx180", "Identity"])})
            self.mk_add_op(0)
            if self.steps[-1]["op"] == "ADD_OP" and self.steps[-1]["c"] == mid and rng.random() < 0.7:
                self.steps[-1]["rel"] = ["FOLLOWED_BY", 0]
                self.model.entries[mid][-1].rel = ("FOLLOWED_BY", self.model.entries[mid][0])
        self.force["reps"] = {"fixed": rng.choice([2, 2, 3])}
        self.mk_new(0)
        outer = self.last_handle()
        self.force.update({"parent": outer, "child": mid})
        self.mk_add_sub(0)
        self.force["handle"] = outer
        self.mk_apply(0)
        self.force.update({"obs_handle": self.last_handle(), "what": "FULL"})
        self.mk_obs(0)

    def _op_on(self, handle, kind, q, **extra):
        """scripted ADD_OP of `kind` on qubits `q` (no relation), shadow model kept in line"""
        st = {"s": 0, "op": "ADD_OP", "c": handle, "kind": kind, "q": list(q)}
        st.update(extra)
        self.emit(st)
        self.model.add_op(handle, st, {"checked": False, "rt": "FOLLOWED_BY", "ref_key": None})
        return st

    def sc_deep_handle_export(self):
        """a block two levels down is extended through a handle between two looks (export / drawing / listing) at the
        outer circuit: outer holds the live structure of a circuit that holds a nested copy"""
        rng = self.rng
        self.force["reps"] = {"fixed": 1}
        self.mk_new(0)
        g = self.last_handle()
        self._op_on(g, rng.choice(["Rx180", "Ry90", "Hadamard"]), [0])
        if rng.random() < 0.4:
            self._op_on(g, "DispersiveMeasure", [0], areg=g, tag="")
        self.force["reps"] = {"fixed": rng.choice([1, 1, 2])}
        self.mk_new(0)
        f = self.last_handle()
        if rng.random() < 0.6:
            self._op_on(f, rng.choice(["Rx180", "Reset"]), [0])
        self.force.update({"parent": f, "child": g})
        self.mk_add_sub(0)
        k = len(self.model.entries[f]) - 1
        self.force["reps"] = {"fixed": 1}
        self.mk_new(0)
        main = self.last_handle()
        if rng.random() < 0.7:
            self._op_on(main, rng.choice(["Reset", "Rx180"]), [0])
        if self.n_qubits > 1 and rng.random() < 0.5:
            self._op_on(main, "Hadamard", [1])
        self.force.update({"parent": main, "child": f})
        if not self.mk_add_live(0):
            self.force.clear()
            return
        what = rng.choice(["STIM", "STIM", "OPENQL", "PLOT", "LIST", "TIMES", "FULL"])
        self.force.update({"obs_handle": main, "what": what})
        self.mk_obs(0)
        st = {"s": 0, "op": "ADD_OP_IN", "c": f, "k": k, "kind": rng.choice(["Ry90", "Rx180", "Rym90"]), "q": [0]}
        if self.live_add_ok(f, self.model.entries[f][k], st):
            self.emit(st)
            self.model.add_op_in(f, st, {"checked": False, "rt": "FOLLOWED_BY", "ref_key": None})
        self.force.update({"obs_handle": main, "what": what})
        self.mk_obs(0)

    def sc_two_deep_flatten(self):
        """sub-circuits nested two deep, the inner one listed before a shallower parallel operation, something behind
        the enclosing block on the inner block's qubit, then (unroll and) flatten and look at the indices"""
        rng = self.rng
        if self.n_qubits < 2:
            return
        self.force["reps"] = {"fixed": 1}
        self.mk_new(0)
        top = self.last_handle()
        self.force["reps"] = {"fixed": rng.choice([1, 1, 2])}
        self.mk_new(0)
        inner = self.last_handle()
        for _ in range(rng.randint(1, 2)):
            self._op_on(inner, rng.choice(["Reset", "Rx180", "Ry90"]), [0])
            self._op_on(inner, "DispersiveMeasure", [0], areg=inner, tag=rng.choice(["", "pre", "mid"]))
        self.force["reps"] = {"fixed": 1}
        self.mk_new(0)
        block = self.last_handle()
        first_inner = rng.random() < 0.7
        if not first_inner:
            self._op_on(block, "DispersiveMeasure", [1], areg=block, tag="")
        self.force.update({"parent": block, "child": inner})
        self.mk_add_sub(0)
        if first_inner:
            if rng.random() < 0.6:
                self._op_on(block, "DispersiveMeasure", [1], areg=block, tag="")
            else:
                self._op_on(block, "Rx180", [1])
        if rng.random() < 0.4:
            self._op_on(top, "Rx180", [0])
        self.force.update({"parent": top, "child": block})
        self.mk_add_sub(0)
        self._op_on(top, "DispersiveMeasure", [0], areg=top, tag="final")
        self.force["handle"] = top
        self.mk_apply(0)
        self.force["handle"] = self.last_handle()
        self.mk_flatten(0)
        self.force.update({"obs_handle": self.last_handle(), "what": rng.choice(["ACQ", "FULL", "STIM"])})
        self.mk_obs(0)

    def sc_annotated_block(self):
        """repeated block with measurements and Stim annotations (all detector shapes), exported before and after unrolling"""
        rng = self.rng
        self.force["reps"] = {"fixed": rng.choice([2, 2, 3])}
        self.mk_new(0)
        blk = self.last_handle()
        nq = self.n_qubits
        for _ in range(rng.randint(1, 3)):
            self.force.update({"handle": blk, "kind": rng.choice(["DispersiveMeasure", "Rx180", "Hadamard", "CPhase" if nq > 1 else "Ry90", "Barrier"])})
            self.mk_add_op(0)
        for _ in range(rng.randint(1, 3)):
            kind = rng.choice(["DetectorOperation", "DetectorOperation", "LogicalObservableOperation", "CoordinateShiftOperation"])
            self.force.update({"handle": blk, "kind": kind})
            n0 = len(self.steps)
            self.mk_add_op(0)
            if len(self.steps) > n0 and kind == "DetectorOperation" and rng.random() < 0.6:
                L = rng.randint(2, 6)
                d = {"last_acquisition_index": L, "main_target": rng.randint(0, L), "secondary_target": rng.randint(0, L),
                     "reference_offset": rng.randint(1, 6)}
                if rng.random() < 0.7:
                    d["secondary_offset"] = rng.randint(0, 4)
                self.steps[-1]["det"] = d
                self.model.entries[blk][-1].extra = [["det", d.get("last_acquisition_index"), d.get("main_target"), d.get("secondary_target"), d.get("reference_offset"), d.get("secondary_offset")]]
        self.force["reps"] = {"fixed": 1}
        self.mk_new(0)
        top = self.last_handle()
        if rng.random() < 0.6:
            self.force["handle"] = top
            self.mk_add_op(0)
        self.force.update({"parent": top, "child": blk})
        self.mk_add_sub(0)
        if rng.random() < 0.5:
            self.force.update({"obs_handle": top, "what": "STIM"})
            self.mk_obs(0)
        self.force["handle"] = top
        self.mk_apply(0)
        self.force.update({"obs_handle": self.last_handle(), "what": rng.choice(["FULL", "STIM", "FULL"])})
        self.mk_obs(0)

    def sc_registry_reps_export(self):
        """registry-provided repetition count changed between two looks at the same circuit"""
        rng = self.rng
        key = rng.choice(["k0", "k1"])
        self.force["reps"] = {"reg": ["rr0", key]}
        self.mk_new(0)
        blk = self.last_handle()
        for _ in range(rng.randint(1, 3)):
            self.force["handle"] = blk
            self.mk_add_op(0)
        if rng.random() < 0.7:
            self.emit({"s": 0, "op": "SET_REP", "r": "rr0", "key": key, "v": rng.choice([1, 2])})
            self.model.rregs.setdefault("rr0", {})[key] = self.steps[-1]["v"]
        self.force["reps"] = {"fixed": 1}
        self.mk_new(0)
        top = self.last_handle()
        if rng.random() < 0.5:
            self.force["handle"] = top
            self.mk_add_op(0)
        self.force.update({"parent": top, "child": blk})
        self.mk_add_sub(0)
        what = rng.choice(["STIM", "STIM", "OPENQL", "FULL", "COMPOSITES"]) if self.pname != "C15" else "OPENQL"
        self.force.update({"obs_handle": top, "what": what})
        self.mk_obs(0)
        self.emit({"s": 0, "op": "SET_REP", "r": "rr0", "key": key, "v": rng.choice([2, 3, 3])})
        self.model.rregs.setdefault("rr0", {})[key] = self.steps[-1]["v"]
        self.force.update({"obs_handle": top, "what": what})
        self.mk_obs(0)
        if rng.random() < 0.5:
            self.force["handle"] = top
            self.mk_apply(0)
            self.force.update({"obs_handle": self.last_handle(), "what": "FULL"})
            self.mk_obs(0)

    def sc_flatten_then_copy(self):
        """operation related (any relation type) to a sub-circuit, flatten, then copy / nest / repeat the flat circuit"""
        rng = self.rng
        self.force["reps"] = {"fixed": 1}
        self.mk_new(0)
        blk = self.last_handle()
        for _ in range(rng.randint(2, 3)):
            self.force.update({"handle": blk, "kind": rng.choice(["Rx180", "Ry90", "Wait", "Reset", "Rym90"])})
            if self.force["kind"] == "Wait":
                self.force["dur"] = {"fixed": rng.choice([0.5, 1.0, 2.0, 3.0])}
            n0 = len(self.steps)
            self.mk_add_op(0)
            if len(self.steps) > n0 and rng.random() < 0.8:
                self.steps[-1]["q"] = [0]
                from sim.model import kind_channels
                n = self.model.entries[blk][-1]
                n.ch = kind_channels(n.kind, [0], self.steps[-1].get("chan"))
        self.force.pop("dur", None)
        self.force["reps"] = {"fixed": rng.choice([1, 1, 2])}
        self.mk_new(0)
        par = self.last_handle()
        if rng.random() < 0.5:
            self.force["handle"] = par
            self.mk_add_op(0)
        self.force.update({"parent": par, "child": blk})
        self.mk_add_sub(0)
        k = len(self.model.entries[par]) - 1
        self.force.update({"handle": par, "kind": rng.choice(["Hadamard", "Rx90", "Identity", "VirtualPark"])})
        n0 = len(self.steps)
        self.mk_add_op(0)
        if len(self.steps) > n0 and self.steps[-1]["op"] == "ADD_OP":
            rt = rng.choice(REL_TYPES)
            self.steps[-1]["rel"] = [rt, k]
            self.model.entries[par][-1].rel = (rt, self.model.entries[par][k])
        self.force["handle"] = par
        self.mk_flatten(0)
        flat = self.last_handle()
        r = rng.random()
        if r < 0.4:
            self.force["handle"] = flat
            self.mk_copy(0)
        elif r < 0.8:
            self.force["reps"] = {"fixed": 1}
            self.mk_new(0)
            outer = self.last_handle()
            self.force.update({"parent": outer, "child": flat})
            self.mk_add_sub(0)
        else:
            self.force["handle"] = flat
            self.mk_apply(0)
        self.force.update({"obs_handle": self.last_handle(), "what": "FULL"})
        self.mk_obs(0)

    SCENARIOS = {
        "C11": [(0.05, "sc_two_deep_flatten"), (0.15, "sc_lib_apply_flatten"), (0.10, "sc_flatten_then_copy")],
        "C06": [(0.10, "sc_lib_apply_flatten"), (0.10, "sc_nested_reps"), (0.06, "sc_unroll_then_copy"), (0.10, "sc_three_levels"), (0.06, "sc_registry_reps_export"), (0.04, "sc_annotated_block")],
        "C08": [(0.05, "sc_deep_handle_export"), (0.10, "sc_lib_apply_flatten"), (0.06, "sc_nested_reps"), (0.15, "sc_annotated_block"), (0.08, "sc_registry_reps_export")],
        "C07": [(0.08, "sc_two_deep_flatten"), (0.12, "sc_lib_apply_flatten"), (0.05, "sc_nested_reps"), (0.06, "sc_annotated_block")],
        "C05": [(0.15, "sc_unroll_then_copy"), (0.05, "sc_nested_reps"), (0.06, "sc_three_levels"), (0.05, "sc_annotated_block"), (0.08, "sc_flatten_then_copy")],
        "C02": [(0.04, "sc_deep_handle_export"), (0.12, "sc_nested_reps"), (0.05, "sc_flatten_then_copy")],
        "C01": [(0.06, "sc_nested_reps"), (0.04, "sc_unroll_then_copy"), (0.06, "sc_flatten_then_copy")],
        "C03": [(0.04, "sc_deep_handle_export"), (0.05, "sc_nested_reps"), (0.05, "sc_unroll_then_copy"), (0.04, "sc_lib_apply_flatten"), (0.03, "sc_three_levels"), (0.05, "sc_registry_reps_export"), (0.03, "sc_flatten_then_copy")],
        "C04": [(0.05, "sc_nested_reps")],
        "C18": [(0.04, "sc_lib_apply_flatten"), (0.04, "sc_deep_handle_export")],
        "C15": [(0.08, "sc_registry_reps_export"), (0.04, "sc_deep_handle_export")],
    }

    # ------------------------------------------------------------ main loop
    def run(self):
        rng = self.rng
        makers = {"NEW": self.mk_new, "ADD_OP": self.mk_add_op, "ADD_OP_IN": self.mk_add_op_in, "ADD_SUB": self.mk_add_sub, "ADD_LIVE": self.mk_add_live, "COPY": self.mk_copy,
                  "APPLY": self.mk_apply, "FLATTEN": self.mk_flatten, "SET_DUR": self.mk_set_dur,
                  "SET_REP": self.mk_set_rep, "OVR_ENTER": self.mk_ovr_enter, "OVR_LEAVE": self.mk_ovr_leave,
                  "SET_INIT": self.mk_set_init, "NEW_LIB": self.mk_new_lib}
        for s in range(self.n_sessions):
            self.mk_new(s)
        if not self.long:
            x = rng.random()
            for p_sc, fn in self.SCENARIOS.get(self.pname, []):
                if x < p_sc:
                    self.in_scenario = True
                    getattr(self, fn)()
                    self.in_scenario = False
                    self.force.clear()
                    break
                x -= p_sc
        guard = 0
        long_mut = {"ADD_OP": 94, "ADD_SUB": 2, "NEW": 1, "APPLY": 1, "COPY": 1, "SET_DUR": 1}
        while len(self.steps) < self.budget and guard < (1200 if self.long else 400):
            guard += 1
            s = rng.randrange(self.n_sessions) if not self.long else 0
            cls = _wchoice(rng, self.class_w)
            if cls == "mut":
                what = _wchoice(rng, long_mut if self.long else self.P["mut"])
                makers[what](s)
            elif cls == "obs":
                self.mk_obs(s)
            else:
                self.mk_fault(s)
        # every run ends with a look at something (so that the last mutations are checked)
        if [h for h in self.all_handles() if h not in self.model.bound]:
            s = rng.randrange(self.n_sessions)
            name = rng.choice([h for h in self.all_handles() if h not in self.model.bound])
            self.emit({"s": s, "op": "OBS", "what": "FULL", "c": name, "check": True})
        while self.ovr_depth > 0:
            self.mk_ovr_leave(0)
        return self.steps


def generate(seed, profile, boot_id=None):
    g = Gen(seed, profile, boot_id)
    steps = g.run()
    return {"format": 1, "profile": profile, "seed": seed, "boot": g.boot_id, "swarm": g.swarm(), "steps": steps}
