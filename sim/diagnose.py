"""Diagnostic predicates for known findings (DESIGN.md 3.6, Appendix B). Each identifies one specific
failing mechanism on the minimised replay; anything else stays a VIOLATION."""
