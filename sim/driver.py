"""
Driver: executes a step list (DESIGN.md 3.2, Appendix A) against the real library inside the booted
World. One `Exec` is one execution: P (everything, in order) or Q (mutations only up to a point, then one
observation).
"""
import contextlib
import gc

from sim.world import WORLD, SimSinkError, HarnessError
from sim import observe
from sim.lib import KINDS

MUTATIONS = {"NEW", "ADD_OP", "ADD_OP_IN", "ADD_SUB", "ADD_LIVE", "NEW_LIB", "COPY", "APPLY", "FLATTEN", "SET_DUR", "SET_REP",
             "OVR_ENTER", "OVR_LEAVE", "SET_INIT"}
FAULTS = {"FLUSH", "SINK_FAIL", "GC", "IDLE", "DROP"}

GKEY = {"readout": "READOUT", "microwave": "MICROWAVE", "flux": "FLUX", "reset": "RESET"}
CHAN = {"RO": "READOUT", "MW": "MICROWAVE", "FL": "FLUX", "ALL": "ALL"}


class Handle:
    __slots__ = ("name", "kind", "obj", "entries", "origin")

    def __init__(self, name, kind, obj, entries, origin=None):
        self.name, self.kind, self.obj, self.entries, self.origin = name, kind, obj, entries, origin


class StepError(Exception):
    """A library call of a step raised (not a sink failure)."""

    def __init__(self, step_index, exc):
        super().__init__(f"step {step_index}: {type(exc).__name__}: {exc}")
        self.step_index, self.exc = step_index, exc


class Exec:
    def __init__(self):
        self.W = WORLD
        self.L = WORLD.lib
        self.handles = {}
        self.dregs = {}
        self.rregs = {}
        self.stack = []
        self.ovr_depth = 0
        self.ovr_cfgs = []
        self._ent = {}           # id(obj) -> (handle name of owner entries list, k)
        self._keep = []          # strong refs so ids are never reused within an execution
        self.adopted = {}
        self.failed_flatten = {}  # step index -> True iff the injected failure fired inside flatten
        self.sub_placements = {}  # step index -> what the implementation linked a nested copy to
        self.placements = []     # per ADD_OP: what the implementation linked the new operation to
        self.fired = []          # (step index, gate name) for sink failures that fired
        self.armed_unfired = 0
        self.log = []

    # -------------------------------------------------------------- helpers
    def entry_of(self, obj):
        return self._ent.get(id(obj))

    def _register_entry(self, h, obj):
        h.entries.append(obj)
        self._keep.append(obj)
        owner = h.origin or h.name
        self._ent.setdefault(id(obj), [owner, len(h.entries) - 1])

    def dreg(self, name):
        if name not in self.dregs:
            self.dregs[name] = self.L.DurationRegistry()
        return self.dregs[name]

    def rreg(self, name):
        if name not in self.rregs:
            self.rregs[name] = self.L.RepetitionRegistry()
        return self.rregs[name]

    def _dur_strategy(self, spec):
        if spec is None:
            return None
        if "fixed" in spec:
            return self.L.FixedDurationStrategy(duration=float(spec["fixed"]))
        r, key = spec["reg"]
        return self.L.RegistryDurationStrategy(registry=self.dreg(r), registry_key=key)

    def _rep_strategy(self, spec):
        if "fixed" in spec:
            return self.L.FixedRepetitionStrategy(repetitions=int(spec["fixed"]))
        r, key = spec["reg"]
        return self.L.RegistryRepetitionStrategy(registry=self.rreg(r), registry_key=key)

    def _relation(self, h, rel):
        if rel is None:
            return None
        rtype, k = rel
        ref = h.entries[k]
        return self.L.RelationLink(ref, self.L.RelationType[rtype])

    def make_op(self, st, h):
        L = self.L
        kind = st["kind"]
        arity, params = KINDS[kind]
        cls = L.kind_class[kind]
        kw = {}
        q = st["q"]
        if "multi" in params:
            kw["qubit_indices"] = list(q)
        elif arity == 1:
            kw["qubit_index"] = q[0]
        else:
            kw["control_qubit_index"], kw["target_qubit_index"] = q[0], q[1]
        rel = self._relation(h, st.get("rel"))
        if rel is not None:
            if "norel" in params:
                raise HarnessError(f"{kind} does not take a relation")
            kw["relation"] = rel
        if params in ("d", "dc"):
            ds = self._dur_strategy(st.get("dur"))
            if ds is not None:
                kw["duration_strategy"] = ds
        if params == "dc" and st.get("chan"):
            kw["qubit_channel"] = L.QubitChannel[CHAN[st["chan"]]]
        if params == "a":
            owner = self.handles[st["areg"]]
            kw["acquisition_strategy"] = owner.obj.get_acquisition_strategy()
            kw["acquisition_tag"] = st.get("tag", "")
        if params == "det":
            for k in ("last_acquisition_index", "main_target", "secondary_target", "reference_offset", "secondary_offset"):
                if st.get("det", {}).get(k) is not None:
                    kw[k] = st["det"][k]
        if params == "obs":
            for k in ("last_acquisition_index", "main_target"):
                if st.get("det", {}).get(k) is not None:
                    kw[k] = st["det"][k]
        if "shift" in params:
            kw["time_shift"] = st.get("shift", [0, 0])[0]
            kw["space_shift"] = st.get("shift", [0, 0])[1]
        return cls(**kw)

    # -------------------------------------------------------------- mutations
    def do_mutation(self, i, st):
        L = self.L
        op = st["op"]
        if op == "NEW":
            if st.get("rel"):
                # a circuit constructed with a relation to an operation of another circuit (meant to be nested there)
                rt, parent, k = st["rel"]
                link = L.RelationLink(self.handles[parent].entries[k], L.RelationType[rt])
                c = L.DeclarativeCircuit(relation=link, repetition_strategy=self._rep_strategy(st["reps"]))
            else:
                c = L.DeclarativeCircuit(repetition_strategy=self._rep_strategy(st["reps"]))
            self.handles[st["c"]] = Handle(st["c"], "decl", c, [])
        elif op == "ADD_OP":
            h = self.handles[st["c"]]
            o = self.make_op(st, h)
            if h.kind == "decl":
                ret = h.obj.add(o)
            else:
                h.obj.add(o)
                ret = o
            self._register_entry(h, o)
            link = o.relation_link
            ref = link.reference_node if not isinstance(link, L.MultiRelationLink) else "multi"
            self.placements.append({"step": i, "ret_is_op": ret is o, "rt": link.relation_type.name,
                                    "ref_obj": ref, "ref_ent": self.entry_of(ref) if ref is not None and ref != "multi" else None})
            if st.get("relist"):
                observe.list_ops(h)
        elif op == "ADD_OP_IN":
            # add to a nested sub-circuit through the handle that add(sub-circuit) returned
            h = self.handles[st["c"]]
            target = h.entries[st["k"]]
            o = self.make_op(st, h)
            target.add(o)
            self._keep.append(o)
            link = o.relation_link
            ref = link.reference_node if not isinstance(link, L.MultiRelationLink) else "multi"
            self.placements.append({"step": i, "ret_is_op": True, "rt": link.relation_type.name, "ref_obj": ref,
                                    "ref_ent": None, "key": id(o)})
            if st.get("relist"):
                observe.list_ops(h)
        elif op == "ADD_SUB":
            h = self.handles[st["c"]]
            child = self.handles[st["child"]]
            if st.get("via") == "structure":
                # nesting that enters below the DeclarativeCircuit wrapper: a copy of the child's structure is added
                # to the circuit's structure directly
                ret = observe.struct_of(child).copy()
                observe.struct_of(h).add(ret)
            else:
                ret = h.obj.add(child.obj)
            self._register_entry(h, ret)
            link = ret.relation_link
            ref = link.reference_node
            self.sub_placements[i] = {"rt": link.relation_type.name, "ref_obj": ref, "obj": ret}
        elif op == "ADD_LIVE":
            # nest the live structure of another circuit (no copy): from here on both circuits hold the same block
            h = self.handles[st["c"]]
            child = self.handles[st["child"]]
            block = observe.struct_of(child)
            ret = h.obj.add_operation(block)
            self._register_entry(h, block)
            link = block.relation_link
            ref = link.reference_node if not isinstance(link, L.MultiRelationLink) else None
            self.sub_placements[i] = {"rt": link.relation_type.name, "ref_obj": ref, "obj": block, "ret_is_op": ret is block}
        elif op == "NEW_LIB":
            from sim import libsrc
            c = libsrc.construct(L, st["ctor"], st["args"])
            h = Handle(st["c"], "decl", c, [])
            self.handles[st["c"]] = h
            # adoption look (part of the step in every execution, so P and Q stay symmetric)
            ops = observe.list_ops(h)
            comps = observe.list_comps(h)
            self._keep.extend(ops)
            self._keep.extend(comps)
            self.adopted[st["c"]] = {"LIST": observe.obs_list(h, self), "COMPOSITES": observe.obs_composites(h, self),
                                     "keys_ops": [id(o) for o in ops], "keys_comps": [id(k) for k in comps]}
        elif op == "COPY":
            h = self.handles[st["c"]]
            cp = observe.struct_of(h).copy()
            self.handles[st["as"]] = Handle(st["as"], "comp", cp, [])
        elif op == "APPLY":
            h = self.handles[st["c"]]
            if h.kind == "decl":
                r = h.obj.apply_modifiers()
                self.handles[st["as"]] = Handle(st["as"], "decl", r, h.entries, origin=h.origin or h.name)
            else:
                r = h.obj.apply_modifiers_to_self()
                self.handles[st["as"]] = Handle(st["as"], "comp", r, h.entries, origin=h.origin or h.name)
        elif op == "FLATTEN" and st.get("fail"):
            # an exception in the middle of the rebuild: the n-th re-placed operation fails
            h = self.handles[st["c"]]
            W = self.W
            W.rebuild_gate_on = True
            W.arm(int(st["fail"]))
            failed = False
            r = None
            try:
                r = h.obj.flatten() if h.kind == "decl" else h.obj.apply_flatten_to_self()
            except SimSinkError:
                failed = True
            finally:
                W.rebuild_gate_on = False
                W.disarm()
            self.failed_flatten[i] = failed
            if failed:
                self.fired.append((i, "graph.add"))
                self.handles[st["as"]] = Handle(st["as"], h.kind, h.obj, h.entries, origin=h.origin or h.name)
            else:
                self.handles[st["as"]] = Handle(st["as"], h.kind, r, h.entries, origin=h.origin or h.name)
        elif op == "FLATTEN":
            h = self.handles[st["c"]]
            if h.kind == "decl":
                r = h.obj.flatten()
                self.handles[st["as"]] = Handle(st["as"], "decl", r, h.entries, origin=h.origin or h.name)
            else:
                r = h.obj.apply_flatten_to_self()
                self.handles[st["as"]] = Handle(st["as"], "comp", r, h.entries, origin=h.origin or h.name)
        elif op == "SET_DUR":
            self.dreg(st["r"]).set_registry_at(st["key"], float(st["v"]))
        elif op == "SET_REP":
            self.rreg(st["r"]).set_registry_at(st["key"], int(st["v"]))
        elif op == "OVR_ENTER":
            cfg = {L.GlobalRegistryKey[GKEY[k]]: float(v) for k, v in st["cfg"].items()}
            cm = L.temporary_override(cfg)
            cm.__enter__()
            self.stack.append(cm)
            self.ovr_depth += 1
            self.ovr_cfgs.append(dict(st["cfg"]))
        elif op == "OVR_LEAVE":
            if self.stack:
                self.stack.pop().__exit__(None, None, None)
                self.ovr_depth -= 1
                self.ovr_cfgs.pop()
        elif op == "SET_INIT":
            h = self.handles[st["c"]]
            if h.kind == "decl":
                h.obj.set_qubit_initial_state(st["q"], L.InitialStateEnum[st["state"]])
        else:
            raise HarnessError(f"unknown mutation {op}")

    # -------------------------------------------------------------- observers
    def do_observer(self, i, st):
        h = self.handles[st["c"]]
        what = st["what"]
        if what == "PLOT":
            labels = st.get("labels")
            if labels is not None:
                labels = {int(k): v for k, v in labels.items()}
            return observe.obs_plot(h, self, order=st.get("order"), labels=labels, compact=st.get("compact", True))
        if what == "FULL":
            return observe.full(h, self, alt=st.get("alt", False))
        return observe.OBSERVERS[what](h, self)

    # -------------------------------------------------------------- faults
    def do_fault(self, i, st):
        op = st["op"]
        if op == "FLUSH":
            self.W.flush_memo(st.get("which", "both"))
        elif op == "SINK_FAIL":
            self.W.arm(int(st["n"]))
        elif op == "GC":
            gc.collect()
        elif op == "DROP":
            # the session lets go of a circuit: its objects become garbage, a later collection can hand their
            # addresses (which id()-based hashes use) to new objects
            h = self.handles.pop(st["c"], None)
            if h is not None and not any(o.entries is h.entries for o in self.handles.values()):
                dead = {id(e) for e in h.entries}
                self._keep = [o for o in self._keep if id(o) not in dead]
                for k in dead:
                    self._ent.pop(k, None)
            del h
            gc.collect()
        elif op == "IDLE":
            pass

    def close(self):
        while self.stack:
            self.stack.pop().__exit__(None, None, None)
        self.ovr_depth = 0
        self.ovr_cfgs = []


def run_P(steps):
    """The perturbed execution: every step in order. Returns (exec, answers) where answers[i] is the
    canonical answer of observer step i, or {'sinkfail': gate} / {'raises': ...}."""
    W = WORLD
    W.reset()
    ex = Exec()
    answers = {}
    try:
        for i, st in enumerate(steps):
            op = st["op"]
            W.step_gate_calls = 0
            if op in MUTATIONS:
                pending = W.armed
                if pending is not None:
                    W.disarm()   # faults are aimed at observers; a mutation in between cancels the aim
                    ex.armed_unfired += 1
                try:
                    ex.do_mutation(i, st)
                except SimSinkError as e:
                    raise HarnessError(f"sink failure inside mutation step {i}") from e
                except HarnessError:
                    raise
                except Exception as e:
                    answers[i] = observe.exc_answer(e)
            elif op == "OBS":
                try:
                    answers[i] = ex.do_observer(i, st)
                    if W.armed is not None:
                        W.disarm()
                        ex.armed_unfired += 1
                except SimSinkError as e:
                    ex.fired.append((i, str(e)))
                    answers[i] = {"sinkfail": str(e)}
                    W.plt.close("all")
                except HarnessError:
                    raise
                except Exception as e:
                    W.disarm()
                    answers[i] = observe.exc_answer(e)
            elif op in FAULTS:
                ex.do_fault(i, st)
            else:
                raise HarnessError(f"unknown step {op}")
    finally:
        ex.close()
    return ex, answers


def run_Q(steps, upto, observer_step=None, full=False, alt=False, keep_open=False, on_mutation=None):
    """Quiescent replay: fresh world state, only the mutations among steps[0..upto], then one look.
    Returns (exec, answer)."""
    W = WORLD
    W.reset()
    ex = Exec()
    answer = None
    try:
        for i, st in enumerate(steps[:upto + 1]):
            if st["op"] in MUTATIONS:
                try:
                    ex.do_mutation(i, st)
                except HarnessError:
                    raise
                except Exception as e:
                    ex.log.append((i, "raises", type(e).__name__, str(e)[:200]))
                    if on_mutation is not None:
                        on_mutation(ex, i, st, e)
                    continue
                if on_mutation is not None:
                    on_mutation(ex, i, st, None)
        st = observer_step if observer_step is not None else steps[upto]
        if st is not None and st["op"] == "OBS":
            try:
                if full:
                    h = ex.handles[st["c"]]
                    answer = observe.full(h, ex, alt=alt)
                    if st["what"] not in observe.FULL_ORDER and st["what"] not in ("FULL",):
                        # the step's own observer comes last so that its answer is also available
                        answer[st["what"]] = ex.do_observer(upto, st)
                else:
                    answer = ex.do_observer(upto, st)
            except HarnessError:
                raise
            except SimSinkError as e:
                raise HarnessError("sink failure in quiescent replay") from e
            except Exception as e:
                answer = observe.exc_answer(e)
    finally:
        if not keep_open:
            ex.close()
    return ex, answer
