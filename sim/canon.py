"""
Canonical forests (DESIGN.md Appendix D). Works on plain dictionaries so that the same code serves
observations of the real library and of the reference model:

    ops   : [{'l': static label, 'rt': relation type, 'ref': None|['op',j]|['comp',j]|'ext', 'multi': bool}]
    comps : [{'reps': n, 'leaves': [op indices], 'parent': comp index|None, 'depth': n, 'rt','ref','multi'}]
    t     : optional per-op [kind, start, end, dur];   ct: optional per-comp [start, end, dur]

Two circuits have the same canonical forest iff they are the same up to listing order and identity.
"""
import hashlib
import json


def _freeze(x):
    if isinstance(x, (list, tuple)):
        return tuple(_freeze(y) for y in x)
    if isinstance(x, dict):
        return tuple(sorted((k, _freeze(v)) for k, v in x.items()))
    return x


def op_block(ops, comps):
    """For every listed op: index of the deepest composite containing it (None = top level)."""
    blk = [None] * len(ops)
    best = [-1] * len(ops)
    for j, k in enumerate(comps):
        d = k.get("depth", 0)
        for i in k["leaves"]:
            if 0 <= i < len(ops) and d > best[i]:
                best[i] = d
                blk[i] = j
    return blk


def build(ops, comps, t=None, ct=None, with_dur=False, relations=True, top=None, origin=0.0):
    """Canonical forest of the block `top` (None = the whole circuit). `t`/`ct` given => timed forest
    (times relative to `origin`). relations=False => membership only (nesting, labels, counts)."""
    blk = op_block(ops, comps)
    members = {}
    for i in range(len(ops)):
        members.setdefault(blk[i], []).append(("op", i))
    for j, k in enumerate(comps):
        members.setdefault(k["parent"], []).append(("comp", j))

    def block_of(key):
        return blk[key[1]] if key[0] == "op" else comps[key[1]]["parent"]

    def rec_of(key):
        return ops[key[1]] if key[0] == "op" else comps[key[1]]

    def internal_ref(key):
        if not relations:
            return "-", None
        r = rec_of(key)
        ref = r.get("ref")
        if isinstance(ref, (list, tuple)):
            tgt = (ref[0], ref[1])
            if block_of(tgt) == block_of(key) and tgt != key:
                if r.get("multi"):
                    # chained behind a group of relation leaves: the group is not identity-resolved,
                    # only the fact (the time equation is checked separately)
                    return "MULTI", None
                return r["rt"], tgt
        return "-", None

    def label(key):
        if key[0] == "op":
            i = key[1]
            lab = [_freeze(ops[i]["l"])]
            if with_dur and t is not None:
                lab.append(("d", t[i][3]))
            if t is not None:
                lab.append(("t", t[i][1] - origin, t[i][2] - origin))
            return tuple(lab)
        j = key[1]
        lab = ["COMP", comps[j]["reps"], canon_block(j)]
        if ct is not None:
            lab.append(("t", ct[j][0] - origin, ct[j][1] - origin))
        return tuple(lab)

    def canon_block(p):
        ms = members.get(p, [])
        children = {}
        roots = []
        rts = {}
        for m in ms:
            rt, tgt = internal_ref(m)
            rts[m] = rt
            if tgt is None:
                roots.append(m)
            else:
                children.setdefault(tgt, []).append(m)

        seen = set()

        def canon(m):
            if m in seen:      # a relation cycle can only come from a broken structure
                return ("CYCLE",)
            seen.add(m)
            ch = sorted((canon(c) for c in children.get(m, [])), key=repr)
            return (label(m), rts[m], tuple(ch))

        out = sorted((canon(m) for m in roots), key=repr)
        unreached = [m for m in ms if m not in seen]
        if unreached:
            out.append(("UNREACHED", len(unreached)))
        return tuple(out)

    return canon_block(top)


def digest(x):
    return hashlib.sha1(repr(x).encode()).hexdigest()[:16]


def jdigest(x):
    return hashlib.sha1(json.dumps(x, sort_keys=True, default=str).encode()).hexdigest()[:16]


def leaf_multiset(ops, t=None):
    """Sorted list of leaf labels (kind, channels, tag/annotation[, duration])."""
    out = []
    for i, o in enumerate(ops):
        lab = [_freeze(o["l"])]
        if t is not None:
            lab.append(t[i][3])
        out.append(tuple(lab))
    return sorted(out, key=repr)
