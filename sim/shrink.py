"""
Step-list validation, dependency repair and delta-debugging minimisation (DESIGN.md 3.6).
A candidate is kept only while the *same oracle* still fires for the property under check.
"""
import copy

from sim.lib import KINDS

STRUCT_ALIAS = ("APPLY", "FLATTEN")


def owners(steps):
    """handle name -> owner of its entry list (aliases created by APPLY/FLATTEN share it)."""
    own = {}
    for st in steps:
        op = st["op"]
        if op in ("NEW", "NEW_LIB"):
            own[st["c"]] = st["c"]
        elif op == "COPY":
            own[st["as"]] = st["as"]
        elif op in STRUCT_ALIAS:
            own[st["as"]] = own.get(st["c"], st["c"])
    return own


def validate(steps):
    """True iff the driver can execute the list (handles defined before use, relation targets exist)."""
    defined = set()
    decl = set()
    nent = {}
    own = {}
    depth = 0
    subs = set()
    consumed = set()
    bound = set()
    bound_to = {}
    live_owners = set()
    for st in steps:
        op = st["op"]
        if op in ("COPY", "APPLY", "FLATTEN", "DROP") and (st.get("c") in consumed or st.get("c") in bound):
            return False
        if op == "ADD_SUB" and (st.get("c") in consumed or st.get("child") in consumed):
            return False
        if op == "ADD_SUB" and st.get("child") in bound and own.get(st.get("c")) != bound_to.get(st.get("child")):
            return False
        if op == "FLATTEN" and own.get(st.get("c")) in live_owners:
            return False
        if op in ("NEW", "NEW_LIB"):
            if st["c"] in defined:
                return False
            if st.get("rel"):
                rt, par, k = st["rel"]
                if par not in decl or par in consumed or par in bound or not (0 <= k < nent[own[par]]):
                    return False
                bound.add(st["c"])
                bound_to[st["c"]] = own[par]
            defined.add(st["c"])
            decl.add(st["c"])
            own[st["c"]] = st["c"]
            nent[st["c"]] = 0
        elif op == "ADD_OP":
            c = st["c"]
            if c not in defined:
                return False
            o = own[c]
            rel = st.get("rel")
            if rel is not None:
                if not (0 <= rel[1] < nent[o]) or "norel" in KINDS[st["kind"]][1]:
                    return False
            if st["kind"] == "DispersiveMeasure" and st.get("areg") not in decl:
                return False
            arity = KINDS[st["kind"]][0]
            if arity == 2 and (len(st["q"]) != 2 or st["q"][0] == st["q"][1]):
                return False
            if arity == 1 and len(st["q"]) != 1:
                return False
            if arity == 0 and len(st["q"]) < 1:
                return False
            nent[o] += 1
        elif op == "ADD_OP_IN":
            c = st["c"]
            if c not in defined or not (0 <= st["k"] < nent[own[c]]) or (own[c], st["k"]) not in subs:
                return False
        elif op == "ADD_SUB":
            subs.add((own.get(st["c"]), nent.get(own.get(st["c"]), 0)))
            if st["c"] not in decl or st["child"] not in defined or st["c"] == st["child"]:
                return False
            if own[st["c"]] == own[st["child"]]:
                return False
            nent[own[st["c"]]] += 1
        elif op == "ADD_LIVE":
            subs.add((own.get(st["c"]), nent.get(own.get(st["c"]), 0)))
            if st["c"] not in decl or st["child"] not in decl or st["c"] == st["child"]:
                return False
            if own[st["c"]] == own[st["child"]]:
                return False
            nent[own[st["c"]]] += 1
            if st["c"] in consumed or st["child"] in consumed or st["c"] in bound or st["child"] in bound:
                return False
            live_owners.add(own[st["c"]])
            # the nested circuit: operations may still be added through it and it may be looked at, nothing else
            for hname in [x for x in defined if own.get(x) == own[st["child"]]]:
                consumed.add(hname)
        elif op == "COPY":
            if st["c"] not in defined or st["as"] in defined:
                return False
            defined.add(st["as"])
            own[st["as"]] = st["as"]
            nent[st["as"]] = 0
        elif op in STRUCT_ALIAS:
            if st["c"] not in defined or st["as"] in defined:
                return False
            if st["c"] in bound:
                bound.add(st["as"])
            defined.add(st["as"])
            own[st["as"]] = own[st["c"]]
            if st["c"] in decl:
                decl.add(st["as"])
        elif op == "OVR_ENTER":
            depth += 1
        elif op == "OVR_LEAVE":
            if depth == 0:
                return False
            depth -= 1
        elif op == "DROP":
            if st["c"] not in defined:
                return False
            defined.discard(st["c"])
            decl.discard(st["c"])
        elif op == "SET_INIT":
            if st["c"] not in defined:
                return False
        elif op == "OBS":
            if st["c"] not in defined or st["c"] in bound:
                return False
            if st["what"] in ("PLOT", "LAST") and st["c"] not in decl:
                return False
    return True


def remove_step(steps, idx):
    """Drop step idx and repair what depended on it. Returns a new list or None."""
    st = steps[idx]
    op = st["op"]
    out = [copy.deepcopy(s) for j, s in enumerate(steps) if j != idx]
    own = owners(steps)
    if op in ("NEW", "NEW_LIB", "COPY") or op in STRUCT_ALIAS:
        gone = {st["as"] if op in ("COPY",) + STRUCT_ALIAS else st["c"]}
        changed = True
        while changed:
            changed = False
            keep = []
            for s in out:
                refs = {s.get("c"), s.get("child"), s.get("areg"), (s.get("rel") or [None, None])[1] if s.get("op") == "NEW" else None} - {None}
                if refs & gone:
                    if s.get("as"):
                        if s["as"] not in gone:
                            gone.add(s["as"])
                            changed = True
                    continue
                keep.append(s)
            out = keep
        # removing ADD_SUB / ADD_OP steps above shifts entry indices: redo via fixpoint below
        return _reindex(steps, out)
    if op in ("ADD_OP", "ADD_SUB", "ADD_LIVE"):
        return _reindex(steps, out)
    if op == "OVR_ENTER":
        # drop the matching leave
        depth = 0
        for j in range(idx, len(out)):
            if out[j]["op"] == "OVR_ENTER":
                depth += 1
            elif out[j]["op"] == "OVR_LEAVE":
                if depth == 0:
                    del out[j]
                    break
                depth -= 1
        return out
    return out


def _reindex(orig, out):
    """Recompute relation indices after entries disappeared: relations are re-pointed by entry identity."""
    own = owners(orig)
    # identity of entries in the original list: (owner, k) -> id(step dict copy) is lost by deepcopy, so mark
    # original steps with their entry slot first
    slot = {}
    cnt = {}
    for st in orig:
        if st["op"] in ("ADD_OP", "ADD_SUB", "ADD_LIVE"):
            o = own.get(st["c"], st["c"])
            k = cnt.get(o, 0)
            cnt[o] = k + 1
            slot[id(st)] = (o, k)
    # map surviving steps (deep copies, same order) back to originals
    survivors = []
    oi = 0
    for s in out:
        while oi < len(orig) and not _same(orig[oi], s):
            oi += 1
        if oi >= len(orig):
            return None
        survivors.append(orig[oi])
        oi += 1
    newk = {}
    cnt = {}
    own2 = owners(out)
    for o_st, s in zip(survivors, out):
        if s["op"] in ("ADD_OP", "ADD_SUB", "ADD_LIVE"):
            o = own2.get(s["c"], s["c"])
            k = cnt.get(o, 0)
            cnt[o] = k + 1
            newk[slot[id(o_st)]] = k
    drop = []
    for o_st, s in zip(survivors, out):
        if s["op"] == "ADD_OP_IN":
            o = own.get(o_st["c"], o_st["c"])
            tgt = (o, o_st["k"])
            if tgt in newk:
                s["k"] = newk[tgt]
            else:
                drop.append(id(s))
    if drop:
        out = [s for s in out if id(s) not in drop]
        survivors = None
    for o_st, s in (zip(survivors, out) if survivors is not None else []):
        if s["op"] == "ADD_OP" and s.get("rel") is not None:
            o = own.get(o_st["c"], o_st["c"])
            tgt = (o, o_st["rel"][1])
            if tgt in newk:
                s["rel"] = [s["rel"][0], newk[tgt]]
            else:
                s["rel"] = None
        if s["op"] == "NEW" and s.get("rel"):
            o = own.get(o_st["rel"][1], o_st["rel"][1])
            tgt = (o, o_st["rel"][2])
            if tgt in newk:
                s["rel"] = [s["rel"][0], s["rel"][1], newk[tgt]]
            else:
                s.pop("rel")
    return out


def _same(a, b):
    return a == b


def simplifications(st):
    """Yield simpler variants of one step."""
    op = st["op"]
    if st.get("s", 0) != 0:
        s = dict(st)
        s["s"] = 0
        yield s
    if op == "NEW" and st["reps"] != {"fixed": 1}:
        for r in ({"fixed": 1}, {"fixed": 2}):
            if st["reps"] != r:
                s = dict(st)
                s["reps"] = r
                yield s
    if op == "ADD_OP":
        if st.get("rel") is not None:
            s = dict(st)
            s["rel"] = None
            yield s
            if st["rel"][0] != "FOLLOWED_BY":
                s = dict(st)
                s["rel"] = ["FOLLOWED_BY", st["rel"][1]]
                yield s
        if st.get("dur") is not None and st["dur"] != {"fixed": 1.0}:
            s = dict(st)
            s["dur"] = {"fixed": 1.0}
            yield s
        if st.get("chan") is not None:
            s = dict(st)
            s.pop("chan")
            yield s
        if st.get("tag"):
            s = dict(st)
            s["tag"] = ""
            yield s
        arity = KINDS[st["kind"]][0]
        simple = {1: "Rx180", 2: "CPhase"}.get(arity)
        if simple and st["kind"] != simple and st["kind"] not in ("DispersiveMeasure",):
            s = {k: v for k, v in st.items() if k not in ("dur", "chan", "det", "shift", "tag", "areg")}
            s["kind"] = simple
            yield s
        if any(q > 0 for q in st["q"]):
            qs = list(st["q"])
            if arity == 2:
                cand = [0, 1] if qs != [0, 1] else None
            elif arity == 1:
                cand = [0]
            else:
                cand = sorted(set(range(len(qs))))
            if cand and cand != qs:
                s = dict(st)
                s["q"] = cand
                yield s
    if op == "OBS":
        if st["what"] == "PLOT":
            for k in ("labels", "order"):
                if st.get(k) is not None and not st.get("unknown"):
                    s = dict(st)
                    s.pop(k)
                    yield s
        if st["what"] == "FULL" and st.get("alt"):
            s = dict(st)
            s.pop("alt")
            yield s
    if op == "FLATTEN" and st.get("fail"):
        s = dict(st)
        s.pop("fail")
        yield s
        if st["fail"] > 1:
            s = dict(st)
            s["fail"] = 1
            yield s
    if op == "SINK_FAIL" and st["n"] > 1:
        s = dict(st)
        s["n"] = 1
        yield s
    if op == "OVR_ENTER":
        base = {"readout": 2.0, "microwave": 1.0, "flux": 1.0, "reset": 2.0}
        for k in st["cfg"]:
            if st["cfg"][k] != base[k]:
                s = copy.deepcopy(st)
                s["cfg"][k] = base[k]
                yield s


def minimise(desc, point, predicate, budget=300):
    """desc: run descriptor; point: failing observation step index; predicate(desc, point) -> bool.
    Returns (desc, point, evaluations)."""
    steps = [copy.deepcopy(s) for s in desc["steps"][: point + 1]]
    # the failing point is the only cross-checked one
    for s in steps[:-1]:
        s.pop("check", None)
    steps[-1]["check"] = True
    evals = 0

    def test(cand):
        nonlocal evals
        if evals >= budget or not validate(cand):
            return False
        evals += 1
        d = dict(desc)
        d["steps"] = cand
        return predicate(d, len(cand) - 1)

    if not test(steps):
        return desc, point, evals
    changed = True
    while changed and evals < budget:
        changed = False
        # chunks first, then single steps
        n = len(steps) - 1
        chunk = max(1, n // 2)
        while chunk >= 1 and evals < budget:
            i = n - chunk
            progressed = False
            while i >= 0 and evals < budget:
                cand = steps
                ok = True
                for j in range(min(i + chunk, len(cand) - 1) - 1, i - 1, -1):
                    if j >= len(cand) - 1:
                        continue
                    nxt = remove_step(cand, j)
                    if nxt is None or not nxt or nxt[-1].get("op") != "OBS":
                        ok = False
                        break
                    cand = nxt
                if ok and len(cand) < len(steps) and test(cand):
                    steps = cand
                    changed = progressed = True
                    n = len(steps) - 1
                    i = min(i, n - chunk)
                else:
                    i -= chunk
            chunk = chunk // 2 if not progressed or chunk > 1 else 0
            if chunk == 0:
                break
    # argument simplification
    improved = True
    while improved and evals < budget:
        improved = False
        for j in range(len(steps)):
            for s in simplifications(steps[j]):
                cand = steps[:j] + [s] + steps[j + 1:]
                if test(cand):
                    steps = cand
                    improved = True
                    break
    out = dict(desc)
    out["steps"] = steps
    out["minimised_from_steps"] = len(desc["steps"])
    return out, len(steps) - 1, evals
