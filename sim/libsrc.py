"""
Library-built circuits as object sources (DESIGN.md 3.4 "adoption"). Their construction is not checked
here; what the claimed properties say about what happens to them afterwards is.
"""

STATES = ["ZERO", "ONE", "PLUS", "MINUS", "PLUS_I", "MINUS_I"]


def construct(L, ctor, args):
    IS = L.InitialStateEnum
    ISC = L.InitialStateContainer
    if ctor in ("rep", "simp", "multi"):
        st = ISC.from_ordered_list([IS[s] for s in args["state"]])
    desc = None
    if ctor in ("rep", "simp") and args.get("refocus") is False:
        from qce_circuit.library.repetition_code.circuit_components import RepetitionCodeDescription
        desc = RepetitionCodeDescription.from_initial_state(initial_state=st, qubit_refocusing=False)
    if ctor == "rep":
        return L.rcc.construct_repetition_code_circuit(qec_cycles=args["cycles"], initial_state=st, description=desc)
    if ctor == "simp":
        return L.rcc.construct_repetition_code_circuit_simplified(qec_cycles=args["cycles"], initial_state=st, description=desc)
    if ctor == "multi":
        from qce_circuit.library.repetition_code.circuit_components import RepetitionCodeDescription
        desc = RepetitionCodeDescription.from_initial_state(initial_state=st)
        return L.rcc.construct_repetition_code_multi_round_circuit(qec_cycles=list(args["rounds"]), description=desc, initial_state=st)
    if ctor == "cal":
        from qce_circuit.connectivity.intrf_channel_identifier import QubitIDObj
        ids = [QubitIDObj(f"D{i + 1}") for i in range(args["n"])]
        desc = L.scomp.CalibrationDescription(
            _qubit_ids=ids,
            _qubit_index_map={q: i for i, q in enumerate(ids)},
            _type=L.scomp.CalibrateType[args.get("type", "QUTRIT")],
        )
        return L.scc.construct_calibration_circuit(description=desc)
    raise ValueError(ctor)
