"""
Self-tests of the simulator (DESIGN.md section 7).

  python -m sim.selftest determinism [--n 1200] [--profiles C03,C18]
  python -m sim.selftest mutants [--only ID-substring] [--with-tests] [--budget 40]
  python -m sim.selftest seeded  [--only NAME] [--budget 60]

determinism: every run descriptor executed twice, in batches of different composition, at different worker
             counts and under different PYTHONHASHSEED values in fresh interpreters; the digests of
             (every observer answer of the perturbed execution + fired faults + findings) must be identical.
mutants    : every mutant of selftest/mutants.py is applied to a scratch copy of /repo/src (under $TMPDIR, removed
             afterwards); the quick check of its property must report a VIOLATION that is not a known finding.
seeded     : the same for the independently written changes kept under /verif/seeded/<id>/patch.diff.
"""
import argparse
import concurrent.futures as cf
import json
import os
import shutil
import subprocess
import sys
import tempfile
import time

VERIF = os.path.dirname(os.path.dirname(os.path.abspath(__file__)))
if VERIF not in sys.path:
    sys.path.insert(0, VERIF)

from sim import runner  # noqa: E402


def _digest_batch(profile, boot, master, indices, jobs, hashseed, chunk):
    os.environ["PYTHONHASHSEED"] = str(hashseed)
    import multiprocessing as mp
    ctx = mp.get_context("spawn")
    out = {}
    with cf.ProcessPoolExecutor(max_workers=jobs, mp_context=ctx) as ex:
        futs = []
        for k in range(0, len(indices), chunk):
            futs.append(ex.submit(runner.worker_chunk, ("C03", profile, boot, master, indices[k:k + chunk], False)))
        for f in futs:
            agg = f.result(timeout=1200)
            if agg["harness_errors"]:
                raise RuntimeError(f"harness errors in determinism batch: {agg['harness_errors'][:1]}")
            for idx, dg in agg["digests"]:
                out[idx] = dg
    return out


def determinism(n, profiles, master=12345):
    bad = []
    total = 0
    t0 = time.time()
    for profile in profiles:
        for boot in ("shipped", "seeded-1"):
            idx = list(range(n))
            a = _digest_batch(profile, boot, master, idx, 16, 0, 25)
            b = _digest_batch(profile, boot, master, list(reversed(idx)), 4, 1, 60)
            c = _digest_batch(profile, boot, master, idx[::2] + idx[1::2], 1 if n <= 300 else 8, 2, 37)
            for i in idx:
                total += 1
                if not (a[i] == b[i] == c[i]):
                    bad.append((profile, boot, i, a[i], b[i], c[i]))
    print(f"determinism: {total} run descriptors x 3 executions (16/4/8 workers, hash seeds 0/1/2, different batch composition), "
          f"{len(bad)} diverging, {time.time() - t0:.0f}s")
    for x in bad[:10]:
        print("  DIVERGED", x)
    return 0 if not bad else 2


def _scratch(with_tests=False):
    d = tempfile.mkdtemp(prefix="qcosim_mut_")
    shutil.copytree("/repo/src", os.path.join(d, "src"), ignore=shutil.ignore_patterns("__pycache__", "*.egg-info"))
    if with_tests:
        shutil.copytree("/repo/tests", os.path.join(d, "tests"), ignore=shutil.ignore_patterns("__pycache__"))
    return d


def _run_check(prop, src, budget, seed="1"):
    env = dict(os.environ)
    tmp = tempfile.mkdtemp(prefix="qcosim_out_")
    env.update({"QCOSIM_REPO_SRC": src, "QCOSIM_EVIDENCE_DIR": tmp, "QCOSIM_REPLAY_DIR": tmp, "VERIF_SEED": seed})
    try:
        r = subprocess.run([os.path.join(VERIF, "check"), prop, "--tier", "quick", "--budget", str(budget)],
                           capture_output=True, text=True, env=env, timeout=budget + 600)
        out = r.stdout + r.stderr
        viol = [l for l in out.splitlines() if l.startswith("VIOLATION")]
        oracles = [l.strip() for l in out.splitlines() if l.strip().startswith("oracle=")]
        return r.returncode, viol, oracles, out
    finally:
        shutil.rmtree(tmp, ignore_errors=True)


def _run_tests(d):
    env = dict(os.environ)
    env.update({"PYTHONPATH": os.path.join(d, "src"), "MPLBACKEND": "Agg"})
    r = subprocess.run([sys.executable, "-m", "pytest", "-q", "-p", "no:cacheprovider", "tests"], cwd=d, capture_output=True, text=True, env=env, timeout=900)
    tail = (r.stdout.strip().splitlines() or ["?"])[-1]
    return r.returncode == 0, tail


def mutants(only, with_tests, budget):
    sys.path.insert(0, os.path.join(VERIF, "selftest"))
    import mutants as mm
    res = []
    for (mid, prop, rel, old, new, note) in mm.MUTANTS:
        if only and only not in mid:
            continue
        d = _scratch(with_tests)
        try:
            p = os.path.join(d, "src", "qce_circuit", rel)
            s = open(p).read()
            if s.count(old) != 1:
                res.append({"id": mid, "property": prop, "status": "NOT-APPLICABLE", "note": f"pattern found {s.count(old)} times"})
                print(f"{mid:45s} pattern found {s.count(old)} times - skipped")
                continue
            open(p, "w").write(s.replace(old, new))
            tests = None
            if with_tests:
                tests = _run_tests(d)
            rc, viol, oracles, out = _run_check(prop, os.path.join(d, "src"), budget)
            status = "CAUGHT" if rc == 1 and viol else ("HARNESS" if rc == 2 else "MISSED")
            res.append({"id": mid, "property": prop, "status": status, "oracles": oracles[:3], "tests": tests, "note": note})
            print(f"{mid:45s} {status:8s} tests={tests} {oracles[:2]}")
            if status == "HARNESS":
                print(out[-1500:])
        finally:
            shutil.rmtree(d, ignore_errors=True)
    return res


def seeded(only, budget, all_props=False):
    root = os.path.join(VERIF, "seeded")
    res = []
    for name in sorted(os.listdir(root)) if os.path.isdir(root) else []:
        if only and only not in name:
            continue
        meta = json.load(open(os.path.join(root, name, "meta.json")))
        prop = meta["property"]
        d = _scratch(False)
        try:
            r = subprocess.run(["git", "apply", "--directory", ".", os.path.join(root, name, "patch.diff")], cwd=d, capture_output=True, text=True)
            if r.returncode != 0:
                # patches are relative to the repository root (src/...), the scratch copy has the same layout
                r = subprocess.run(["patch", "-p1", "-i", os.path.join(root, name, "patch.diff")], cwd=d, capture_output=True, text=True)
            if r.returncode != 0:
                print(f"{name:40s} PATCH-FAILED {r.stderr[:200]}")
                res.append({"id": name, "property": prop, "status": "PATCH-FAILED"})
                continue
            props = [prop] + ([p for p in meta.get("also_check", [])] if all_props else [])
            for pr in props:
                rc, viol, oracles, out = _run_check(pr, os.path.join(d, "src"), budget)
                status = "CAUGHT" if rc == 1 and viol else ("HARNESS" if rc == 2 else "MISSED")
                if meta.get("superseded_by_fix"):
                    # a later repair made this change harmless (its demo passes on the current tree): must stay quiet
                    status = {"CAUGHT": "FALSE-ALARM", "MISSED": "QUIET-OK"}.get(status, status)
                res.append({"id": name, "property": pr, "status": status, "oracles": oracles[:3]})
                print(f"{name:40s} {pr} {status:8s} {oracles[:2]}")
                if status == "HARNESS":
                    print(out[-1500:])
        finally:
            shutil.rmtree(d, ignore_errors=True)
    return res


def reverts(only, budget):
    """The reverse of every fix: commit (in a scratch worktree of /repo under $TMPDIR) must be caught by the check of
    the property it was recorded under."""
    kf = json.load(open(os.path.join(VERIF, "known_findings.json")))
    res = []
    for f in kf.get("fixed", []):
        tag = f"{f['id']}-{f['property']}"
        if only and only not in tag:
            continue
        wt = tempfile.mkdtemp(prefix="qcosim_rev_")
        os.rmdir(wt)
        subprocess.run(["git", "-C", "/repo", "worktree", "add", "-q", "--detach", wt, "HEAD"], check=True)
        try:
            r = subprocess.run(["git", "-C", wt, "revert", "--no-commit", f["commit"]], capture_output=True, text=True)
            if r.returncode != 0:
                print(f"{tag:14s} REVERT-CONFLICT (later fixes build on it)")
                res.append({"id": tag, "property": f["property"], "status": "NOT-APPLICABLE"})
                subprocess.run(["git", "-C", wt, "revert", "--abort"], capture_output=True)
                continue
            rc, viol, oracles, out = _run_check(f["property"], os.path.join(wt, "src"), budget)
            status = "CAUGHT" if rc == 1 and viol else ("HARNESS" if rc == 2 else "MISSED")
            res.append({"id": tag, "property": f["property"], "status": status, "oracles": oracles[:2]})
            print(f"{tag:14s} {status:8s} {[o[:160] for o in oracles[:2]]}")
            if status == "HARNESS":
                print(out[-1500:])
        finally:
            subprocess.run(["git", "-C", "/repo", "worktree", "remove", "--force", wt], capture_output=True)
    return res


def benign(only, budget):
    """Changes that keep every property: the checks must stay quiet (exit 0, no VIOLATION line)."""
    sys.path.insert(0, os.path.join(VERIF, "selftest"))
    import benign as bb
    res = []
    for (bid, rel, old, new, note, props) in bb.BENIGN:
        if only and only not in bid:
            continue
        d = _scratch(False)
        try:
            p = os.path.join(d, "src", "qce_circuit", rel)
            s = open(p).read()
            if s.count(old) != 1:
                print(f"{bid:40s} pattern found {s.count(old)} times - skipped")
                res.append({"id": bid, "property": "-", "status": "NOT-APPLICABLE"})
                continue
            open(p, "w").write(s.replace(old, new))
            for pr in props:
                rc, viol, oracles, out = _run_check(pr, os.path.join(d, "src"), budget)
                status = "CAUGHT" if rc == 0 and not viol else ("HARNESS" if rc == 2 else "FALSE-ALARM")
                res.append({"id": bid, "property": pr, "status": status, "oracles": oracles[:2]})
                print(f"{bid:40s} {pr} {'quiet' if status == 'CAUGHT' else status} {[o[:200] for o in oracles[:2]]}")
                if status != "CAUGHT":
                    print(out[-1200:])
        finally:
            shutil.rmtree(d, ignore_errors=True)
    return res


def findings():
    """Every recorded replay of a repaired defect fires on the tree before the first fix: commit and is quiet on
    the current tree."""
    log = subprocess.run(["git", "-C", "/repo", "log", "--reverse", "--format=%H %s"], capture_output=True, text=True).stdout.splitlines()
    first_fix = next((l.split()[0] for l in log if l.split(" ", 1)[1].startswith("fix:")), None)
    if first_fix is None:
        print("no fix: commit in /repo")
        return []
    wt = tempfile.mkdtemp(prefix="qcosim_base_")
    os.rmdir(wt)
    subprocess.run(["git", "-C", "/repo", "worktree", "add", "-q", "--detach", wt, first_fix + "^"], check=True)
    res = []
    try:
        for fn in sorted(os.listdir(os.path.join(VERIF, "findings"))):
            path = os.path.join(VERIF, "findings", fn)
            env = dict(os.environ)
            if fn.startswith("open-"):
                # replay of a listed open finding: reproduced on the current tree as KNOWN-FINDING, exit 0
                r = subprocess.run([os.path.join(VERIF, "check"), "--replay", path], capture_output=True, text=True, env=env)
                ok = r.returncode == 0 and r.stdout.startswith("KNOWN-FINDING")
                res.append({"id": fn, "property": json.load(open(path))["property"], "status": "CAUGHT" if ok else "MISSED", "open": True})
                print(f"{fn:60s} open known finding, current tree: {'KNOWN-FINDING (exit 0)' if ok else 'NOT REPRODUCED'}")
                continue
            new = subprocess.run([os.path.join(VERIF, "check"), "--replay", path], capture_output=True, text=True, env=env).stdout.startswith("VIOLATION")
            env["QCOSIM_REPO_SRC"] = os.path.join(wt, "src")
            old = subprocess.run([os.path.join(VERIF, "check"), "--replay", path], capture_output=True, text=True, env=env).stdout.startswith("VIOLATION")
            ok = old and not new
            res.append({"id": fn, "property": json.load(open(path))["property"], "status": "CAUGHT" if ok else "MISSED",
                        "fires_before_repairs": old, "fires_on_current_tree": new})
            print(f"{fn:60s} before repairs: {'VIOLATION' if old else 'quiet':9s} current tree: {'VIOLATION' if new else 'quiet'}")
    finally:
        subprocess.run(["git", "-C", "/repo", "worktree", "remove", "--force", wt], capture_output=True)
    return res


def main():
    ap = argparse.ArgumentParser()
    ap.add_argument("what", choices=["determinism", "mutants", "seeded", "reverts", "findings", "benign"])
    ap.add_argument("--n", type=int, default=1200)
    ap.add_argument("--profiles", default="C03,C18,C05")
    ap.add_argument("--only")
    ap.add_argument("--with-tests", action="store_true")
    ap.add_argument("--budget", type=float, default=40)
    ap.add_argument("--out")
    a = ap.parse_args()
    if a.what == "determinism":
        return determinism(a.n, a.profiles.split(","))
    if a.what == "benign":
        res = benign(a.only, a.budget)
    elif a.what == "findings":
        res = findings()
    elif a.what == "reverts":
        res = reverts(a.only, a.budget)
    else:
        res = mutants(a.only, a.with_tests, a.budget) if a.what == "mutants" else seeded(a.only, a.budget)
    if a.out:
        with open(a.out, "w") as f:
            json.dump(res, f, indent=1)
    missed = [r for r in res if r["status"] not in ("CAUGHT", "NOT-APPLICABLE", "QUIET-OK")]
    quiet = len([r for r in res if r["status"] == "QUIET-OK"])
    print(f"{a.what}: {len(res)} run, {len([r for r in res if r['status'] == 'CAUGHT'])} caught, {len(missed)} not caught"
          + (f", {quiet} superseded by a later repair and quiet as expected" if quiet else ""))
    return 0 if not missed else 1


if __name__ == "__main__":
    sys.exit(main())
