"""
Runner: seeded search over run descriptors on all cores, minimisation + fresh-process replay of every
violation, known-finding classification, evidence (DESIGN.md 3.6, 3.7, 5).
"""
import concurrent.futures as cf
import faulthandler
import hashlib
import json
import multiprocessing as mp
import os
import subprocess
import sys
import time

VERIF = os.path.dirname(os.path.dirname(os.path.abspath(__file__)))
PY = sys.executable

TIERS = {
    # tier -> (wall budget seconds for the search, hash seeds, max violations to minimise)
    "quick": {"budget": 50, "hashseeds": [0], "max_min": 3, "chunk": 12},
    "thorough": {"budget": 1200, "hashseeds": [0, 1, 2], "max_min": 6, "chunk": 24},
}
BOOTS = ["shipped", "absent", "seeded-1", "seeded-2"]


SCALE_PROPS = ("C02",)


def run_seed(master, index):
    h = hashlib.sha256(f"{master}:{index}".encode()).digest()
    return int.from_bytes(h[:6], "big")


# --------------------------------------------------------------------------------------- worker side
_BOOTED = {}


def _ensure_world(boot_id, real_openql=False):
    from sim.world import WORLD
    if not WORLD.booted:
        faulthandler.enable()
        if real_openql:
            work = os.path.join(VERIF, ".work", "oql", str(os.getpid()))
            WORLD.boot(boot_id, real_openql=True, work_dir=work)
        else:
            WORLD.boot(boot_id)
        _BOOTED["id"] = boot_id
    elif _BOOTED.get("id") != boot_id:
        raise RuntimeError(f"worker booted as {_BOOTED.get('id')}, asked for {boot_id}")
    return WORLD


def worker_chunk_real(args):
    """Same as worker_chunk in a world where the exporter talks to the real OpenQL library."""
    return worker_chunk(args, real_openql=True)


def worker_chunk(args, real_openql=False):
    """Run a chunk of run indices. Returns aggregated stats and (bounded) violations."""
    prop, profile, boot_id, master, indices, want_samples = args
    sys.path.insert(0, VERIF) if VERIF not in sys.path else None
    _ensure_world(boot_id, real_openql)
    from sim import generator, engine, canon
    faulthandler.dump_traceback_later(600, exit=True)
    agg = {"runs": 0, "steps": 0, "points": 0, "timed_points": 0, "plot_points": 0, "fired": {}, "armed_unfired": 0,
           "probes": {}, "violations": [], "harness_errors": [], "states": set(), "interleavings": set(),
           "nontrivial": set(), "samples": [], "other_props": {}, "fault_free_runs": 0, "wall": 0.0,
           "digests": [], "ops_kinds": {}, "sinkfail_points": 0, "ambiguous_points": 0, "acq_out_of_scope": 0,
           "mutations": 0, "observers": 0, "faults": 0, "model_errors": 0, "known": {}, "known_samples": {}}
    t0 = time.time()
    for idx in indices:
        seed = run_seed(master, idx)
        desc = generator.generate(seed, profile, boot_id)
        if idx == 0 and prop in SCALE_PROPS and not real_openql:
            # the scale probe (engine.run_scale) takes the place of run 0
            desc = {"format": 1, "profile": profile, "seed": seed, "boot": boot_id, "swarm": {"scale": True},
                    "scale": {"n": 5100, "qubits": 8}, "steps": []}
        desc["run_index"] = idx
        desc["master_seed"] = master
        if real_openql:
            desc["real_openql"] = True   # minimise / replay in the same kind of world
        try:
            r = engine.run_descriptor(desc)
        except Exception as e:  # harness problem: never a pass, never a violation
            import traceback
            agg["harness_errors"].append({"index": idx, "seed": seed, "exc": type(e).__name__, "msg": str(e)[:300],
                                          "tb": traceback.format_exc()[-1500:]})
            continue
        st = r["stats"]
        agg["runs"] += 1
        if st.get("wall", 0) > agg.get("slowest", (0, 0))[0]:
            agg["slowest"] = (round(st["wall"], 2), idx)
        agg["steps"] += st["steps"]
        agg["points"] += st.get("points", 0)
        agg["timed_points"] += st.get("timed_points", 0)
        agg["plot_points"] += st.get("plot_points", 0)
        agg["sinkfail_points"] += st.get("sinkfail_points", 0)
        agg["ambiguous_points"] += st.get("ambiguous_points", 0)
        agg["acq_out_of_scope"] += st.get("acq_out_of_scope", 0)
        agg["model_errors"] += st.get("model_errors", 0)
        agg["armed_unfired"] += st.get("armed_unfired", 0)
        for g in st.get("fired", []):
            agg["fired"][g] = agg["fired"].get(g, 0) + 1
        for k, v in st.get("probes", {}).items():
            agg["probes"][k] = agg["probes"].get(k, 0) + v
        for k, v in st.get("transition_points", {}).items():
            agg["probes"]["transition:" + k] = agg["probes"].get("transition:" + k, 0) + v
        if desc["swarm"].get("fault_free"):
            agg["fault_free_runs"] += 1
        kinds = []
        seen_obs = False
        mut_after_obs = False
        for s in desc["steps"]:
            op = s["op"]
            kinds.append((s.get("s", 0), op if op != "OBS" else "OBS:" + s["what"]))
            if op == "OBS":
                seen_obs = True
                agg["observers"] += 1
            elif op in ("FLUSH", "SINK_FAIL", "GC", "IDLE", "DROP"):
                agg["faults"] += 1
                if op in ("FLUSH", "GC", "DROP"):
                    agg["fired"][op] = agg["fired"].get(op, 0) + 1
            else:
                agg["mutations"] += 1
                if seen_obs:
                    mut_after_obs = True
            if op == "ADD_OP":
                agg["ops_kinds"][s["kind"]] = agg["ops_kinds"].get(s["kind"], 0) + 1
        for j in range(len(kinds) - 3):
            agg["interleavings"].add(hash(tuple(kinds[j:j + 4])))
        dg = canon.jdigest(desc["steps"])
        if mut_after_obs and r["checked_points"] > 0:
            agg["nontrivial"].add(dg)
        agg["states"].add(r["digest"])
        agg["digests"].append([idx, r["digest"]])
        if want_samples and len(agg["samples"]) < 1:
            agg["samples"].append({"run_index": idx, "seed": seed, "boot": boot_id, "steps": desc["steps"]})
        mine = []
        for f in r["findings"]:
            if prop not in f["props"]:
                continue
            if engine.is_known(f):
                kid = engine.known_diags()[(prop, f["detail"]["diag"])]["id"]
                agg["known"][kid] = agg["known"].get(kid, 0) + 1
                if kid not in agg["known_samples"]:
                    agg["known_samples"][kid] = {"desc": desc, "finding": f}
            else:
                mine.append(f)
        for f in r["findings"]:
            if prop not in f["props"]:
                for p in f["props"]:
                    agg["other_props"][p] = agg["other_props"].get(p, 0) + 1
        if mine and len(agg["violations"]) < 4:
            agg["violations"].append({"desc": desc, "finding": mine[0], "n_findings": len(mine)})
        elif mine:
            agg.setdefault("more_violations", 0)
            agg["more_violations"] += 1
    faulthandler.cancel_dump_traceback_later()
    agg["wall"] = time.time() - t0
    for k in ("states", "interleavings", "nontrivial"):
        agg[k] = list(agg[k])
    return agg


def worker_minimise(args):
    """Minimise one violation in this (fresh) worker and return the minimised descriptor + finding."""
    prop, desc, finding, budget = args
    _ensure_world(desc["boot"], bool(desc.get("real_openql")))
    from sim import engine, shrink
    oracle = finding["oracle"]
    diag = finding.get("detail", {}).get("diag")
    if desc.get("scale"):
        # minimise the size: the smallest of a few sizes at which the same oracle still fires
        evals = 0
        best = desc
        for n in (16, 128, 1024, 2048, 4096):
            if n >= desc["scale"]["n"]:
                break
            d = dict(desc, scale=dict(desc["scale"], n=n))
            evals += 1
            if any(prop in f["props"] and f["oracle"] == oracle for f in engine.run_descriptor(d)["findings"]):
                best = d
                break
        r = engine.run_descriptor(best)
        fs = [f for f in r["findings"] if prop in f["props"] and f["oracle"] == oracle]
        return {"desc": best, "finding": fs[0] if fs else None, "evals": evals, "all_findings": [f for f in r["findings"] if prop in f["props"]]}

    def predicate(d, point):
        try:
            r = engine.run_descriptor(d)
        except Exception:
            return False
        return any(prop in f["props"] and f["oracle"] == oracle and f.get("detail", {}).get("diag") == diag for f in r["findings"])

    point = finding.get("point", len(desc["steps"]) - 1)
    point = min(point, len(desc["steps"]) - 1)
    md, mpoint, evals = shrink.minimise(desc, point, predicate, budget=budget)
    r = engine.run_descriptor(md)
    fs = [f for f in r["findings"] if prop in f["props"] and f["oracle"] == oracle and f.get("detail", {}).get("diag") == diag]
    return {"desc": md, "finding": fs[0] if fs else None, "evals": evals, "all_findings": [f for f in r["findings"] if prop in f["props"]]}


def worker_replay(args):
    prop, desc = args
    _ensure_world(desc["boot"], bool(desc.get("real_openql")))
    from sim import engine
    r = engine.run_descriptor(desc)
    return {"findings": [f for f in r["findings"] if prop in f["props"]], "digest": r["digest"],
            "all": r["findings"]}


# --------------------------------------------------------------------------------------- main side
def _pool(n, hashseed):
    os.environ["PYTHONHASHSEED"] = str(hashseed)
    ctx = mp.get_context("spawn")
    return cf.ProcessPoolExecutor(max_workers=n, mp_context=ctx)


def fresh_call(fn_name, args, hashseed=0, timeout=600):
    """Run one worker function in a brand-new interpreter (fresh world)."""
    os.environ["PYTHONHASHSEED"] = str(hashseed)
    ctx = mp.get_context("spawn")
    with cf.ProcessPoolExecutor(max_workers=1, mp_context=ctx) as ex:
        fut = ex.submit(globals()[fn_name], args)
        return fut.result(timeout=timeout)


def library_rev():
    try:
        rev = subprocess.run(["git", "-C", "/repo", "rev-parse", "--short", "HEAD"], capture_output=True, text=True, timeout=20).stdout.strip()
        dirty = bool(subprocess.run(["git", "-C", "/repo", "status", "--porcelain", "--untracked-files=no"], capture_output=True, text=True, timeout=20).stdout.strip())
        return rev, dirty
    except Exception:
        return "unknown", False


def search(prop, profile, tier, master, jobs, budget=None, boots=None, log=print):
    cfg = TIERS[tier]
    budget = cfg["budget"] if budget is None else budget
    boots = boots or BOOTS
    hashseeds = cfg["hashseeds"]
    t0 = time.time()
    deadline = t0 + budget
    total = {"runs": 0, "steps": 0, "points": 0, "timed_points": 0, "plot_points": 0, "fired": {}, "armed_unfired": 0,
             "probes": {}, "violations": [], "harness_errors": [], "states": set(), "interleavings": set(),
             "nontrivial": set(), "samples": [], "other_props": {}, "fault_free_runs": 0, "cpu": 0.0,
             "ops_kinds": {}, "more_violations": 0, "sinkfail_points": 0, "ambiguous_points": 0,
             "acq_out_of_scope": 0, "mutations": 0, "observers": 0, "faults": 0, "model_errors": 0,
             "per_world": {}, "known": {}, "known_samples": {}}
    next_index = 0
    chunk = cfg["chunk"]
    # one pool per (hash seed); every worker process serves exactly one boot configuration
    groups = []
    per = max(1, jobs // (len(boots) * len(hashseeds)))
    for hs in hashseeds:
        for b in boots:
            groups.append({"hs": hs, "boot": b, "pool": _pool(per, hs), "futs": set(), "n": per, "gid": len(groups), "next": 0})
    try:
        gi = 0
        pending = {}
        def submit(g):
            nonlocal next_index
            # chunk size adapts to the measured throughput of this world: about 2.5 s of work per chunk
            rate = g.get("rate")
            n = chunk if rate is None else max(4, min(chunk * 4, int(rate * 2.5)))
            remaining = deadline - time.time()
            if rate is not None and remaining > 0:
                n = max(2, min(n, int(rate * remaining * 0.8) or 2))
            # run index -> world is a fixed function: index mod #worlds selects (boot, hash seed)
            k0 = g["next"]
            idxs = [g["gid"] + len(groups) * k for k in range(k0, k0 + n)]
            g["next"] = k0 + n
            want = len(total["samples"]) + len(pending) < 3
            f = g["pool"].submit(worker_chunk, (prop, profile, g["boot"], master, idxs, want))
            pending[f] = g
        for g in groups:
            for _ in range(g["n"] + 1):
                submit(g)
        stop_for_violations = False
        while pending:
            done, _ = cf.wait(list(pending), timeout=5, return_when=cf.FIRST_COMPLETED)
            for f in done:
                g = pending.pop(f)
                try:
                    agg = f.result()
                except Exception as e:
                    total["harness_errors"].append({"exc": type(e).__name__, "msg": str(e)[:300], "world": g["boot"]})
                    continue
                _merge(total, agg, g)
                if os.environ.get("QCOSIM_DEBUG"):
                    log(f"[{time.time() - t0:6.1f}s] chunk {g['boot']}/hs{g['hs']} runs={agg['runs']} wall={agg['wall']:.1f}s slowest={agg.get('slowest')}")
                if agg["wall"] > 0 and agg["runs"] > 0:
                    r = agg["runs"] / agg["wall"]
                    g["rate"] = r if g.get("rate") is None else 0.5 * g["rate"] + 0.5 * r
                if len(total["violations"]) >= 12:
                    stop_for_violations = True
                if time.time() < deadline and not stop_for_violations and not total["harness_errors"]:
                    submit(g)
            if time.time() > deadline + 300:
                total["harness_errors"].append({"exc": "Timeout", "msg": "workers did not finish 300 s after the deadline"})
                break
    finally:
        for g in groups:
            g["pool"].shutdown(wait=False, cancel_futures=True)
    total["wall"] = time.time() - t0
    return total


def _merge(total, agg, g):
    for k in ("runs", "steps", "points", "timed_points", "plot_points", "armed_unfired", "fault_free_runs",
              "sinkfail_points", "ambiguous_points", "acq_out_of_scope", "mutations", "observers", "faults", "model_errors"):
        total[k] += agg.get(k, 0)
    total["cpu"] += agg["wall"]
    total["more_violations"] += agg.get("more_violations", 0)
    for a, b in agg.get("known_samples", {}).items():
        total["known_samples"].setdefault(a, b)
    for k in ("fired", "probes", "other_props", "ops_kinds", "known"):
        for a, b in agg[k].items():
            total[k][a] = total[k].get(a, 0) + b
    for k in ("states", "interleavings", "nontrivial"):
        total[k].update(agg[k])
    total["violations"].extend(agg["violations"])
    total["harness_errors"].extend(agg["harness_errors"])
    total["samples"].extend(agg["samples"])
    w = f"{g['boot']}/hashseed={g['hs']}"
    total["per_world"][w] = total["per_world"].get(w, 0) + agg["runs"]


def search_real_openql(prop, profile, master, jobs, n_runs, total):
    """Sampled real-OpenQL worlds (thorough tier of C15): the cQASM written by the real compiler is parsed back
    and must equal the translation of the listing; this also calibrates the recording fake."""
    import shutil
    t0 = time.time()
    pool = _pool(max(1, min(jobs, 8)), 0)
    try:
        futs = []
        per = 20
        base = 10 ** 7     # index range disjoint from the bulk search
        for k in range(0, n_runs, per):
            idxs = list(range(base + k, base + min(k + per, n_runs)))
            futs.append(pool.submit(worker_chunk_real, (prop, profile, "shipped", master, idxs, False)))
        g = {"boot": "shipped+real-openql", "hs": 0}
        for f in futs:
            try:
                agg = f.result(timeout=1800)
            except Exception as e:
                total["harness_errors"].append({"exc": type(e).__name__, "msg": str(e)[:300], "world": "real-openql"})
                continue
            _merge(total, agg, g)
    finally:
        pool.shutdown(wait=False, cancel_futures=True)
        shutil.rmtree(os.path.join(VERIF, ".work", "oql"), ignore_errors=True)
    total["real_openql_wall"] = time.time() - t0
