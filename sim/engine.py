"""
Engine: for one run descriptor perform the perturbed execution P, the quiescent replays Q(i) / Q*(i), the
reference model M(i), and evaluate the oracles (DESIGN.md 3.3).
"""
import time

from sim.world import WORLD, HarnessError, BOOT_CONFIGS
from sim import driver, observe, oracles, canon
from sim.model import Model, ModelError

VIS = {"readout": 2.0, "microwave": 1.0, "flux": 1.0, "reset": 2.0}


def vis_durations():
    """The drawing's own compact durations, as the library defines them (fallback: the documented ones)."""
    try:
        d = WORLD.lib.VIS_DURATIONS
        out = {k.name.lower(): float(v) for k, v in d.items()}
        if set(out) == set(VIS):
            return out
    except Exception:
        pass
    return dict(VIS)

MUT_PROPS = {"NEW": ["C01", "C02"], "ADD_OP": ["C01", "C02"], "ADD_OP_IN": ["C01", "C02"], "ADD_SUB": ["C05", "C02"], "ADD_LIVE": ["C02", "C01"], "COPY": ["C05"],
             "APPLY": ["C06"], "FLATTEN": ["C11"], "NEW_LIB": [], "SET_DUR": ["C03"], "SET_REP": ["C06"],
             "OVR_ENTER": ["C03", "C18"], "OVR_LEAVE": ["C03", "C18"], "SET_INIT": ["C18"]}
OBS_PROPS = {"LIST": ["C02"], "LIST_TWICE": ["C02"], "TIMES": ["C01"], "DURATION": ["C04"], "COMPOSITES": ["C02"],
             "COMP_TIMES": ["C04"], "CHANNELS": ["C02"], "ACQ": ["C07"], "LAST": ["C02"], "STIM": ["C08"],
             "OPENQL": ["C15"], "REPR": ["C03"], "COPYOBS": ["C05"], "FULL": ["C02"], "PLOT": ["C18"]}


def _ref_signature(ref):
    """How the object the implementation linked to is itself related (one level up): used only to tell apart
    unbound model members that carry the same label."""
    L = WORLD.lib
    link = ref.relation_link
    if isinstance(link, L.MultiRelationLink):
        return ["MULTI", None]
    up = link.reference_node
    if up is None:
        return ["-", None]
    return [link.relation_type.name, ["COMP", []] if observe.kind_of(up) == "COMP" else observe.static_label(up)]


class Feed:
    """Drives the reference model from a quiescent replay (follows the implementation's admissible choices)."""

    def __init__(self, boot_durations):
        from sim import model as _model
        _model.set_tables(getattr(WORLD, "tables", None))
        self.M = Model(boot_durations)
        self.findings = []
        self.flags = {}
        self.pure_lib = set()
        self.explicit_roots = set()  # structures into which an operation with an explicit relation was added
        self.user_ops = set()
        self.probes = {}
        self.leaf_entries = {}
        self.last_struct_mut = {}   # id(root) -> step index of the last structural mutation
        self.born = {}              # handle -> (op, step, source)
        self.last_sub = {}          # parent handle -> (step, child handle, entry index) of its latest ADD_SUB
        self.apply_info = {}        # alias -> {'top_reps': n, 'effective': bool}
        self.last_apply = {}        # id(structure) -> (step, handle it was applied to, info) of the latest effective unroll
        self.last_flatten = {}      # id(structure) -> (step, handle)
        self.key_collisions = set() # ("sub", parent handle, step) / ("copy", handle): copies taken while D17 applies

    def _mark_rel_unknown(self, node):
        node.rel_known = False
        for m in node.members:
            if m.is_comp:
                self._mark_rel_unknown(m)

    def probe(self, k, n=1):
        self.probes[k] = self.probes.get(k, 0) + n

    def touch(self, name, i):
        # ... a live-nested circuit is part of the circuits it sits in
        for node in self.M.chain_of(self.M.roots[name]):
            self.last_struct_mut[id(node)] = i

    def mark(self, group, name):
        for node in self.M.chain_of(self.M.roots[name]):
            group.add(id(node))

    def __call__(self, ex, i, st, exc):
        M = self.M
        op = st["op"]
        if exc is not None:
            self.findings.append(oracles.F(MUT_PROPS.get(op, []), "mutation-raises", step=i, op=op, exc=type(exc).__name__, msg=str(exc)[:200]))
            # keep the model's handle table usable
            if op in ("COPY", "APPLY", "FLATTEN") and st.get("as") and st["c"] in M.roots:
                M.alias(st["c"], st["as"])
                self.flags[st["as"]] = self.flags.get(st["c"], set())
            return
        if op == "NEW":
            M.new(st["c"], st["reps"], st.get("rel"))
            self.flags[st["c"]] = set()
            self.leaf_entries[st["c"]] = []
            self.touch(st["c"], i)
        elif op == "ADD_OP":
            name = st["c"]
            pl = ex.placements[-1]
            ref = pl["ref_obj"]
            impl = {"rt": pl["rt"], "key": id(ex.handles[name].entries[-1])}
            if ref is None:
                impl["ref_key"] = None
            elif ref == "multi":
                impl["ref_key"] = None
                impl["checked"] = False
            else:
                impl["ref_key"] = id(ref)
                impl["ref_label"] = ["COMP", []] if observe.kind_of(ref) == "COMP" else observe.static_label(ref)
                impl["ref_sig"] = _ref_signature(ref)
            if not pl["ret_is_op"]:
                self.findings.append(oracles.F(["C02"], "add-did-not-return-the-operation", step=i))
            v = M.add_op(name, st, impl)
            if not v.get("ok", True):
                self.findings.append(oracles.F(["C01"], "placement", step=i, **{k: x for k, x in v.items() if k != "ok"}))
            for k in ("tie", "all_specific", "ambiguous", "fallback"):
                if v.get(k):
                    self.probe("placement-" + k)
            self.leaf_entries.setdefault(st["c"], [])
            owner = ex.handles[name].origin or name
            self.leaf_entries.setdefault(owner, []).append(len(M.entries[name]) - 1)
            self.mark(self.user_ops, name)
            self.touch(name, i)
            if st.get("rel"):
                self.mark(self.explicit_roots, name)
            if st.get("rel") and st["rel"][0] == "JOINED_END":
                self.probe("joined-end")
        elif op == "ADD_OP_IN":
            name = st["c"]
            pl = ex.placements[-1]
            ref = pl["ref_obj"]
            impl = {"rt": pl["rt"], "key": pl.get("key")}
            if ref is None:
                impl["ref_key"] = None
            elif ref == "multi":
                impl["ref_key"] = None
                impl["checked"] = False
            else:
                impl["ref_key"] = id(ref)
                impl["ref_label"] = ["COMP", []] if observe.kind_of(ref) == "COMP" else observe.static_label(ref)
                impl["ref_sig"] = _ref_signature(ref)
            v = M.add_op_in(name, st, impl)
            if not v.get("ok", True):
                self.findings.append(oracles.F(["C01"], "placement", step=i, nested=True, **{k: x for k, x in v.items() if k != "ok"}))
            for k in ("tie", "all_specific", "ambiguous"):
                if v.get(k):
                    self.probe("placement-" + k)
            self.mark(self.user_ops, name)
            self.touch(name, i)
            self.probe("add-into-nested-entry")
        elif op == "ADD_SUB":
            name, child = st["c"], st["child"]
            sp = ex.sub_placements.get(i)
            c, v = M.add_sub(name, child, key=id(sp["obj"]) if sp else None, via_structure=st.get("via") == "structure")
            if st.get("via") == "structure":
                self.probe("add-sub-below-the-wrapper")
            if v.get("collision"):
                self.key_collisions.add(("sub", name, i))
                self.probe("copy-key-collision")
            own_rel = M.roots[child].rel
            if own_rel is not None and own_rel[0] != "MULTI" and M.is_member(M.roots[name], own_rel[1]) and sp is not None:
                # the sub-circuit itself was constructed with a relation to an operation of this circuit (C01: a
                # sub-circuit is scheduled by its relation like any operation)
                self.probe("sub-circuit-with-own-relation")
                ref = sp["ref_obj"]
                if sp["rt"] == own_rel[0] and ref is not None and id(ref) == own_rel[1].key:
                    c.rel = (own_rel[0], own_rel[1])
                    sp = None
                else:
                    self.findings.append(oracles.F(["C01"], "sub-circuit-relation-dropped", step=i, want=[own_rel[0], own_rel[1].label()],
                                                   got=[sp["rt"], None if ref is None else (["COMP", []] if observe.kind_of(ref) == "COMP" else observe.static_label(ref))],
                                                   diag="D19"))
            if sp is not None:
                ref = sp["ref_obj"]
                impl = {"rt": sp["rt"], "ref_key": None if ref is None else id(ref)}
                if ref is not None:
                    impl["ref_label"] = ["COMP", []] if observe.kind_of(ref) == "COMP" else observe.static_label(ref)
                    impl["ref_sig"] = _ref_signature(ref)
                v2 = M.place_sub(name, c, impl, v)
                if not v2.get("ok", True):
                    self.findings.append(oracles.F(["C01"], "placement-subcircuit", step=i, **{k: x for k, x in v2.items() if k != "ok"}))
                if v2.get("tie"):
                    self.probe("placement-tie")
            self.flags[name] |= {"copy"} | self.flags.get(child, set())
            self.last_sub[name] = (i, child, len(M.entries[name]) - 1)
            if id(M.roots[child]) in self.explicit_roots:
                self.explicit_roots.add(id(M.roots[name]))
            if child in M.ambiguous:
                M.ambiguous.add(name)
            self.mark(self.user_ops, name)
            self.touch(name, i)
            self.probe("add-sub")
            if M.roots[child].members and any(m.is_comp for m in M.roots[child].members):
                self.probe("nest-depth>=2")
        elif op == "ADD_LIVE":
            name, child = st["c"], st["child"]
            sp = ex.sub_placements.get(i)
            c, v = M.add_live(name, child, key=id(sp["obj"]) if sp else None)
            if sp is not None:
                ref = sp["ref_obj"]
                impl = {"rt": sp["rt"], "ref_key": None if ref is None else id(ref)}
                if ref is not None:
                    impl["ref_label"] = ["COMP", []] if observe.kind_of(ref) == "COMP" else observe.static_label(ref)
                    impl["ref_sig"] = _ref_signature(ref)
                v2 = M.place_sub(name, c, impl, v)
                M.settle_live(c)
                if not v2.get("ok", True):
                    self.findings.append(oracles.F(["C01"], "placement-subcircuit", step=i, live=True, **{k: x for k, x in v2.items() if k != "ok"}))
                if not sp.get("ret_is_op", True):
                    self.findings.append(oracles.F(["C02"], "add-did-not-return-the-operation", step=i))
            self.flags[name] |= {"live"} | self.flags.get(child, set())
            if id(M.roots[child]) in self.explicit_roots:
                self.explicit_roots.add(id(M.roots[name]))
            if child in M.ambiguous:
                M.ambiguous.add(name)
            self.mark(self.user_ops, name)
            self.touch(name, i)
            self.touch(child, i)
            self.probe("add-live")
        elif op == "NEW_LIB":
            a = ex.adopted[st["c"]]
            M.adopt(st["c"], a["LIST"]["ops"], a["COMPOSITES"]["comps"], a["keys_ops"], a["keys_comps"])
            self.flags[st["c"]] = {"lib"}
            self.pure_lib.add(id(M.roots[st["c"]]))
            self.leaf_entries[st["c"]] = []
            self.touch(st["c"], i)
            self.probe("lib-circuit")
        elif op == "COPY":
            if M.key_collision(M.roots[st["c"]], False):
                self.key_collisions.add(("copy", st["as"]))
                self.probe("copy-key-collision")
            M.copy(st["c"], st["as"])
            self.flags[st["as"]] = set(self.flags.get(st["c"], set())) | {"copy"}
            self.leaf_entries[st["as"]] = []
            self.born[st["as"]] = ("COPY", i, st["c"])
            if id(M.roots[st["c"]]) in self.explicit_roots:
                self.explicit_roots.add(id(M.roots[st["as"]]))
            self.touch(st["as"], i)
            if id(M.roots[st["c"]]) in self.pure_lib and id(M.roots[st["c"]]) not in self.user_ops:
                self.pure_lib.add(id(M.roots[st["as"]]))
        elif op == "APPLY":
            name = st["c"]
            before = M.unrolled_leaf_count(name=name) if True else 0
            plain = M.leaf_count(name)
            root = M.roots[name]
            top_reps_before = M.node_reps(root)
            eff = before != plain or top_reps_before != 1 or not all_reps_one(M, root)
            try:
                M.apply(name, st["as"])
            except ModelError as e:
                M.alias(name, st["as"])
                M.ambiguous.add(name)
                M.ambiguous.add(st["as"])
            self.flags[st["as"]] = self.flags.setdefault(name, set())
            # applying modifiers always counts as a change of the structure: it freezes registry-provided counts
            self.touch(name, i)
            if eff:
                self.flags[name].add("unroll")
                self.probe("effective-unroll")
            self.born[st["as"]] = ("APPLY", i, name)
            self.apply_info[st["as"]] = {"effective": eff, "top_reps_before": top_reps_before}
            if eff:
                self.last_apply[id(root)] = (i, name, {"effective": eff, "top_reps_before": top_reps_before})
        elif op == "FLATTEN" and ex.failed_flatten.get(i):
            # the rebuild failed half-way: nothing may be lost - same content, same nesting; which relation links
            # had already been rewritten when it failed is not specified
            name = st["c"]
            M.alias(name, st["as"])
            self.flags[st["as"]] = self.flags.setdefault(name, set())
            self._mark_rel_unknown(M.roots[name])
            self.touch(name, i)
            self.probe("flatten-failed-midway")
        elif op == "FLATTEN":
            name = st["c"]
            root = M.roots[name]
            had = any(m.is_comp for m in root.members)
            leaves = M.listing(root)
            root.members[:] = leaves
            for n in leaves:
                n.rel = None
            root.rel_known = False
            M.alias(name, st["as"])
            self.flags[st["as"]] = self.flags.setdefault(name, set())
            self.flags[name].add("flatten")
            self.touch(name, i)
            self.born[st["as"]] = ("FLATTEN", i, name)
            self.last_flatten[id(root)] = (i, name)
            if had:
                self.probe("effective-flatten")
        elif op == "SET_DUR":
            M.dregs.setdefault(st["r"], {})[st["key"]] = float(st["v"])
        elif op == "SET_REP":
            M.rregs.setdefault(st["r"], {})[st["key"]] = int(st["v"])
        elif op == "OVR_ENTER":
            M.ovr.append(dict(st["cfg"]))
        elif op == "OVR_LEAVE":
            if M.ovr:
                M.ovr.pop()


def tree_rel_known(node):
    if not node.rel_known:
        return False
    return all(tree_rel_known(m) for m in node.members if m.is_comp)


def all_reps_one(M, node):
    if M.node_reps(node) != 1:
        return False
    return all(all_reps_one(M, m) for m in node.members if m.is_comp)


_MARGIN = {}
_KNOWN = {}


def known_diags():
    """diag tag -> entry of /verif/known_findings.json (open findings only; read once, never written)."""
    if "d" not in _KNOWN:
        import json
        import os
        p = os.path.join(os.path.dirname(os.path.dirname(os.path.abspath(__file__))), "known_findings.json")
        d = {}
        if os.path.exists(p):
            with open(p) as f:
                for k in json.load(f).get("findings", []):
                    if k.get("status", "open") == "open" and k.get("diag"):
                        d[(k["property"], k["diag"])] = k
        _KNOWN["d"] = d
    return _KNOWN["d"]


def is_known(f):
    diag = f.get("detail", {}).get("diag")
    if not diag:
        return False
    kd = known_diags()
    return all((p, diag) in kd for p in f["props"]) and f["oracle"] in kd[(f["props"][0], diag)].get("oracles", [f["oracle"]])


def plot_margin():
    """The margin the implementation itself uses (figure width - latest end) on a one-operation circuit."""
    if "m" not in _MARGIN:
        steps = [{"op": "NEW", "c": "m0", "reps": {"fixed": 1}},
                 {"op": "ADD_OP", "c": "m0", "kind": "Wait", "q": [0], "dur": {"fixed": 3.0}},
                 {"op": "OBS", "what": "PLOT", "c": "m0", "compact": True}]
        ex, ans = driver.run_Q(steps, 2)
        _MARGIN["m"] = ans["width"] - 3.0 if isinstance(ans, dict) and "width" in ans else None
    return _MARGIN["m"]


def q_star(steps, i, st, extra_steps=(), alt=False):
    """Quiescent replay with the model attached, then the full canonical observation of st['c']."""
    feed = Feed(WORLD.boot_durations)
    seq = list(steps[:i]) + list(extra_steps) + [dict(st)]
    upto = len(seq) - 1
    ex, full = driver.run_Q(seq, upto, full=True, alt=alt, on_mutation=feed)
    return ex, full, feed


def evaluate_point(desc, i, ansP, stats):
    """All oracles at observation point i. Returns list of findings."""
    steps = desc["steps"]
    st = steps[i]
    what = st["what"]
    name = st["c"]
    findings = []
    a = ansP
    if isinstance(a, dict) and "sinkfail" in a:
        stats["sinkfail_points"] = stats.get("sinkfail_points", 0) + 1
        return findings
    # ---- Q(i): the same observer alone on a fresh replay of the mutations
    exq, ansQ = driver.run_Q(steps, i)
    d = oracles.diff_answers(a, ansQ)
    if d:
        props = ["C03"] + (["C15"] if what == "OPENQL" else [])   # C15 itself promises repeatable names
        findings.append(oracles.F(props, "P!=Q", step=i, what=what, diff=d))
    # ---- Q*(i): full canonical observation + model
    alt = bool(desc.get("alt_baseline"))
    exs, full, feed = q_star(steps, i, st, alt=alt)
    findings.extend(feed.findings)
    if isinstance(full, dict) and "raises" in full and len(full) <= 2:
        findings.append(oracles.F(OBS_PROPS.get(what, []), "observer-raises", step=i, exc=full["raises"], msg=full.get("msg")))
        return findings
    if what == "FULL":
        # observer-order independence of the baseline itself: compare what both orders report
        shared = [k for k in full if isinstance(ansQ, dict) and k in ansQ]
        d2 = oracles.diff_answers({k: ansQ[k] for k in shared}, {k: full[k] for k in shared})
    else:
        own = full.get(what)
        d2 = oracles.diff_answers(ansQ, own) if own is not None else None
    if d2:
        findings.append(oracles.F(["C03"] + (["C15"] if what == "OPENQL" else []), "Q!=Q*", step=i, what=what, diff=d2))
    for k, exc, msg in oracles.raised(full):
        if k in ("STIM", "OPENQL"):
            continue   # reported (and diagnosed) by the export oracles
        findings.append(oracles.F(OBS_PROPS.get(k, ["C02"]), "observer-raises", step=i, observer=k, exc=exc, msg=msg))
    M = feed.M
    if name not in M.roots:
        return findings
    root = M.roots[name]
    flags = feed.flags.get(name, set())
    stats["points"] = stats.get("points", 0) + 1
    for k, v in feed.probes.items():
        stats.setdefault("probes", {})
        stats["probes"][k] = stats["probes"].get(k, 0) + v
    # local oracles
    owner = exs.handles[name].origin or name
    findings.extend(oracles.c02_local(full, feed.leaf_entries.get(owner), owner))
    findings.extend(oracles.c01_local(full))
    findings.extend(oracles.c04_local(full))
    # the same statements hold for what the perturbed execution itself reported at this point
    if what == "TIMES" and isinstance(a, dict) and a.get("t") and a.get("dur") is not None:
        want = max(x[2] for x in a["t"]) - min(x[1] for x in a["t"])
        if a["dur"] != want:
            findings.append(oracles.F(["C04"], "perturbed:circuit-duration!=span", got=a["dur"], want=want))
        for x in a["t"]:
            if x[2] != x[1] + x[3]:
                findings.append(oracles.F(["C01"], "perturbed:end!=start+duration", start=x[1], end=x[2], dur=x[3]))
                break
    if what == "FULL" and isinstance(a, dict):
        for f in oracles.c02_local(a, feed.leaf_entries.get(owner), owner) + oracles.c01_local(a) + oracles.c04_local(a):
            f["oracle"] = "perturbed:" + f["oracle"]
            findings.append(f)
    # model conformance
    if name not in M.ambiguous:
        try:
            view = M.view(name)
            view["rel_known"] = tree_rel_known(M.top_of(root))
            findings.extend(oracles.conformance(full, view, flags))
            if view.get("t") is not None:
                stats["timed_points"] = stats.get("timed_points", 0) + 1
            findings.extend(oracles.c08_vs_model(full, view))
            findings.extend(oracles.c15_vs_model(full, view))
            # ... and what the perturbed execution itself reported conforms as well
            pert = None
            if what == "FULL" and isinstance(a, dict):
                pert = oracles.conformance(a, view, flags)
            elif what in ("LIST", "LIST_TWICE") and isinstance(a, dict) and a.get("ops") is not None:
                got_ms, want_ms = canon.leaf_multiset(a["ops"]), canon.leaf_multiset(view["ops"])
                if got_ms != want_ms:
                    pert = [oracles.F(["C02"], "content-differs-from-model", got=oracles._ms_diff(got_ms, want_ms))]
            for f in pert or []:
                f["oracle"] = "perturbed:" + f["oracle"]
                findings.append(f)
        except ModelError as e:
            stats["model_errors"] = stats.get("model_errors", 0) + 1
    else:
        stats["ambiguous_points"] = stats.get("ambiguous_points", 0) + 1
    # acquisition
    applied = all_reps_one(M, root)
    in_scope = M.measurements_in_scope(name)
    if not in_scope:
        stats["acq_out_of_scope"] = stats.get("acq_out_of_scope", 0) + 1
    findings.extend(oracles.c07(full, in_scope, applied))
    if id(root) in feed.pure_lib and id(root) not in feed.user_ops and applied:
        findings.extend(oracles.c07_monotone(full, True))
    elif applied and in_scope and "lib" not in flags and id(root) not in feed.explicit_roots and oracles.overlap_free(full):
        # implicitly sequenced and free of channel overlaps (certified on the observation itself)
        findings.extend(oracles.c07_monotone(full, True))
        stats["acq_monotone_points"] = stats.get("acq_monotone_points", 0) + 1
    # exports
    findings.extend(oracles.c08(full))
    findings.extend(oracles.c15(full))
    # what the perturbed execution exported / indexed at this point is the image of the (clean) listing too
    if isinstance(a, dict):
        pert = []
        base = {"LIST_TWICE": full.get("LIST_TWICE"), "COMPOSITES": full.get("COMPOSITES"), "TIMES": full.get("TIMES")}
        if what == "STIM" and "stim" in a:
            pert = oracles.c08(dict(base, STIM=a))
        elif what == "OPENQL" and ("items" in a):
            pert = oracles.c15(dict(base, OPENQL=a))
        elif what == "ACQ" and "m" in a:
            pert = oracles.c07(dict(base, ACQ=a), in_scope, applied)
        elif what == "FULL":
            pert = oracles.c08(a) + oracles.c15(a) + oracles.c07(a, in_scope, applied)
        for f in pert:
            if not is_known(f):
                f["oracle"] = "perturbed:" + f["oracle"]
                findings.append(f)
    # transitions: copy vs source, before/after unrolling and flattening
    try:
        findings.extend(transition_oracles(desc, i, st, full, feed, stats))
    except ModelError:
        pass
    # drawing
    if what == "PLOT" and isinstance(a, dict) and "plot" in a:
        findings.extend(plot_oracle(desc, i, st, ansQ, stats))
    for f in findings:
        f.setdefault("point", i)
    return findings


def _struct_steps_between(steps, lo, hi):
    """True iff a duration-configuration step lies in steps(lo, hi)."""
    return any(s["op"] in ("OVR_ENTER", "OVR_LEAVE", "SET_DUR", "SET_REP") for s in steps[lo + 1:hi])


def transition_oracles(desc, i, st, full, feed, stats):
    steps = desc["steps"]
    name = st["c"]
    M = feed.M
    out = []
    if name not in M.roots:
        return out
    root = M.roots[name]
    ops, comps, t, ct, dur, start = oracles.parts(full)
    if ops is None or comps is None:
        return out
    born = feed.born.get(name)
    last_mut = feed.last_struct_mut.get(id(root), -1)

    def tp(k):
        stats.setdefault("transition_points", {})
        stats["transition_points"][k] = stats["transition_points"].get(k, 0) + 1

    # ---- explicit copy vs its source (implementation against implementation, no model involved)
    if born and born[0] == "COPY" and last_mut <= born[1]:
        src = born[2]
        if src in M.roots and feed.last_struct_mut.get(id(M.roots[src]), -1) < born[1]:
            exs, fsrc, _ = q_star(steps, i, {"op": "OBS", "what": "FULL", "c": src})
            out.extend(compare_copy(full, fsrc, None, "copy()", acq=M.measurements_in_scope(name) and M.measurements_in_scope(src),
                                    d17=("copy", name) in feed.key_collisions))
            tp("copy-vs-source")
    # ---- nested copy (add as sub-circuit) vs the child it was copied from
    ls = feed.last_sub.get(name)
    if ls is not None and last_mut <= ls[0]:
        s_step, child, k = ls
        if child in M.roots and child not in M.bound and feed.last_struct_mut.get(id(M.roots[child]), -1) < s_step and M.roots[child] is not root:
            owner = None
            j = None
            for jj, c in enumerate(comps):
                e = c.get("ent")
                if e is not None and e[1] == k and c["parent"] is None:
                    j = jj
            if j is not None:
                exs, fchild, _ = q_star(steps, i, {"op": "OBS", "what": "FULL", "c": child})
                out.extend(compare_copy(full, fchild, j, "add(sub-circuit)", acq=M.measurements_in_scope(name) and M.measurements_in_scope(child),
                                        d17=("sub", name, s_step) in feed.key_collisions))
                tp("nested-vs-child")
    # ---- before / after unrolling (whichever handle of the unrolled structure is looked at)
    la = feed.last_apply.get(id(root))
    if la is not None and last_mut <= la[0] and la[0] > 0:
        info = la[2]
        src = la[1]
        born = ("APPLY", la[0], src)
        if info.get("effective") and info.get("top_reps_before") == 1:
            exs, pre, _ = q_star(steps, born[1], {"op": "OBS", "what": "FULL", "c": src})
            lib = id(root) in feed.pure_lib and id(root) not in feed.user_ops
            out.extend(compare_unroll(pre, full, lib))
            tp("before-after-unroll" + ("-lib" if lib else ""))
    # ---- before / after flattening (modifier-applied library circuits keep everything)
    lf = feed.last_flatten.get(id(root))
    if lf is not None and last_mut <= lf[0] and lf[0] > 0:
        born = ("FLATTEN", lf[0], lf[1])
        src = born[2]
        if id(root) in feed.pure_lib and id(root) not in feed.user_ops and not _struct_steps_between(steps, born[1], i):
            exs, pre, _ = q_star(steps, born[1], {"op": "OBS", "what": "FULL", "c": src})
            pcomps = (pre.get("COMPOSITES") or {}).get("comps") or []
            if all(c["reps"] == 1 for c in pcomps):
                out.extend(compare_flatten_lib(pre, full))
                tp("before-after-flatten-lib")
    return out


def _acq_of(full, leaves):
    """Acquisition answers (qubit, tag, per-qubit index) of the measurements among the listed leaves (None = all), and
    whether the circuit has measurements elsewhere - in an order-free form: the listing order among simultaneous
    measurements is not fixed by any property (a copy may list a tie the other way round), so neither is which of
    them gets which index; whether a measurement resolves at all (-1) and which indices a qubit hands out is."""
    acq = full.get("ACQ")
    if not isinstance(acq, dict) or "m" not in acq:
        return None, None
    mine = [m for m in acq["m"] if leaves is None or m[0] in leaves]
    # order-free: which (qubit, tag) resolve, and the set of per-qubit indices handed out per qubit (overlapping
    # measurements of one qubit are a tie too)
    inside = [sorted([m[1], m[2], m[3] >= 0] for m in mine),
              sorted([q, sorted(m[3] for m in mine if m[1] == q)] for q in {m[1] for m in mine})]
    others = any(leaves is not None and m[0] not in leaves for m in acq["m"])
    return inside, others


def compare_copy(full_parent, full_src, comp_index, how, acq=False, d17=False):
    out = _compare_copy(full_parent, full_src, comp_index, how, acq or d17)
    if d17:
        # known finding D17: the copy was taken while two of the circuits taking part in it were the same lookup key
        for f in out:
            f["props"] = ["C05"]
            f["detail"]["diag"] = "D17"
    return out


def _compare_copy(full_parent, full_src, comp_index, how, acq=False):
    """Copy faithfulness, implementation against implementation: the canonical forest (kinds, channels, tags,
    annotation fields, relation types, re-pointed internal relations) and the schedule relative to the own
    start of the copy equal those of its source."""
    out = []
    ops, comps, t, ct, dur, start = oracles.parts(full_parent)
    sops, scomps, stt, sct, sdur, sstart = oracles.parts(full_src)
    if ops is None or sops is None or comps is None or scomps is None:
        return out
    a = canon.build(ops, comps, top=comp_index)
    b = canon.build(sops, scomps)
    if a != b:
        out.append(oracles.F(["C05"], "copy-differs-from-source", how=how, copy=oracles._short(a), source=oracles._short(b)))
        return out
    if t is not None and stt is not None and ct is not None and sct is not None and len(t) == len(ops) and len(stt) == len(sops):
        origin = ct[comp_index][0] if comp_index is not None else (start or 0.0)
        a = canon.build(ops, comps, t=t, ct=ct, with_dur=True, top=comp_index, origin=origin)
        b = canon.build(sops, scomps, t=stt, ct=sct, with_dur=True, origin=sstart or 0.0)
        if a != b:
            # the relation equations of the source no longer hold in its copy: C05, and C01's "through nesting"
            out.append(oracles.F(["C05", "C01"], "copy-schedule-differs-from-source", how=how, copy=oracles._short(a), source=oracles._short(b)))
        elif comp_index is not None and sdur is not None and ct[comp_index][2] != sdur:
            out.append(oracles.F(["C05", "C04"], "nested-copy-duration-differs-from-source", how=how, got=ct[comp_index][2], want=sdur))
    if acq and not out:
        # the measurements of the copy resolve in the circuit they were copied into exactly as those of the source
        # resolve in the source (compared where the copy holds all measurements of its circuit: no index offsets)
        got, others = _acq_of(full_parent, None if comp_index is None else set(comps[comp_index]["leaves"]))
        want, _ = _acq_of(full_src, None)
        if got is not None and want is not None and not others and got != want:
            out.append(oracles.F(["C05", "C07"], "copy-acquisition-indices-differ-from-source", how=how, got=got[:12], want=want[:12]))
    return out


def compare_unroll(pre, post, lib):
    """Exporting before or after unrolling gives the same multiset of instructions and the same number of
    measurements; for library-built circuits the identical program and the n-fold concatenated listing."""
    from collections import Counter
    out = []
    a, b = pre.get("STIM"), post.get("STIM")
    if a and b and "stim" in a and "stim" in b:
        fa, fb = observe.expand_stim(a["stim"]), observe.expand_stim(b["stim"])
        if lib:
            if fa != fb:
                out.append(oracles.F(["C08", "C06"], "stim-program-changed-by-unrolling", n_before=len(fa), n_after=len(fb),
                                     first_diff=next((k for k, (x, y) in enumerate(zip(fa, fb)) if x != y), min(len(fa), len(fb)))))
        elif Counter(map(repr, fa)) != Counter(map(repr, fb)):
            out.append(oracles.F(["C08", "C06"], "stim-multiset-changed-by-unrolling", n_before=len(fa), n_after=len(fb)))
        if a.get("nm") != b.get("nm"):
            out.append(oracles.F(["C08"], "measurement-count-changed-by-unrolling", before=a.get("nm"), after=b.get("nm")))
    pops, pcomps = oracles.parts(pre)[0:2]
    qops, qcomps = oracles.parts(post)[0:2]
    if pops is not None and qops is not None and pcomps is not None:
        want = oracles.walk_listing(pops, pcomps, lambda lab: [lab])
        got = [o["l"] for o in qops]
        if lib:
            if got != want:
                out.append(oracles.F(["C06"], "unrolled-listing-not-concatenation", n_got=len(got), n_want=len(want),
                                     first_diff=next((k for k, (x, y) in enumerate(zip(got, want)) if x != y), min(len(got), len(want)))))
        elif Counter(map(repr, got)) != Counter(map(repr, want)):
            out.append(oracles.F(["C06"], "unrolled-content-not-product-of-counts", n_got=len(got), n_want=len(want)))
        if qcomps is not None and any(c["reps"] != 1 for c in qcomps):
            out.append(oracles.F(["C06"], "repetition-count-not-reset", reps=[c["reps"] for c in qcomps]))
    return out


def compare_flatten_lib(pre, post):
    out = []
    pops, pcomps, pt = oracles.parts(pre)[0:3]
    qops, qcomps, qt = oracles.parts(post)[0:3]
    if pops is None or qops is None:
        return out
    if [o["l"] for o in pops] != [o["l"] for o in qops]:
        # known finding D16: flatten re-lists by relation depth; a circuit whose nested listing is not in start-time
        # order across its sub-circuits (operations of a later block start before operations of an earlier one) comes
        # out in another order with the very same schedule. Anything else (content or schedule changed, or a circuit
        # that was listed in time order across blocks) stays a violation.
        diag = None
        if pt is not None and qt is not None and len(pt) == len(pops) and len(qt) == len(qops):
            same_schedule = sorted(([repr(o["l"]), x[1], x[2]] for o, x in zip(pops, pt))) == sorted(([repr(o["l"]), x[1], x[2]] for o, x in zip(qops, qt)))
            blk = canon.op_block(pops, pcomps or [])
            inversion = any(blk[i] != blk[j] and pt[j][1] < pt[i][1] for i in range(len(pops)) for j in range(i + 1, len(pops)))
            if same_schedule and inversion:
                diag = "D16"
        out.append(oracles.F(["C11"], "flatten-changed-listing-order", n_before=len(pops), n_after=len(qops), diag=diag))
        return out
    if pt is not None and qt is not None and pt != qt:
        out.append(oracles.F(["C11"], "flatten-changed-schedule", first_diff=next((k for k, (x, y) in enumerate(zip(pt, qt)) if x != y), -1)))
    a, b = pre.get("ACQ"), post.get("ACQ")
    if a and b and a.get("m") is not None and a.get("m") != b.get("m"):
        out.append(oracles.F(["C11", "C07"], "flatten-changed-acquisition-indices"))
    a, b = pre.get("STIM"), post.get("STIM")
    if a and b and "stim" in a and "stim" in b and observe.expand_stim(a["stim"]) != observe.expand_stim(b["stim"]):
        out.append(oracles.F(["C11", "C08"], "flatten-changed-stim-program"))
    if qcomps:
        out.append(oracles.F(["C11"], "sub-circuit-remains-after-flatten", n=len(qcomps)))
    return out


def plot_oracle(desc, i, st, plot, stats):
    steps = desc["steps"]
    extra = []
    if st.get("compact", True):
        extra = [{"op": "OVR_ENTER", "cfg": vis_durations()}]
    ex, full, feed = q_star(steps, i, {"op": "OBS", "what": "FULL", "c": st["c"]}, extra_steps=extra)
    t = (full.get("TIMES") or {}).get("t")
    ch = (full.get("CHANNELS") or {}).get("ch") or []
    valid = []
    for q, _ in ch:
        if q not in valid:
            valid.append(q)
    mt = [(x[1], x[2]) for x in t] if t is not None else None
    out = oracles.c18_positions(plot, st, full, mt, plot_margin(), valid)
    # the clean schedule used as reference is itself checked against the model
    M = feed.M
    name = st["c"]
    if name in M.roots and name not in M.ambiguous:
        try:
            view = M.view(name)
            view["rel_known"] = tree_rel_known(M.top_of(M.roots[name]))
            for f in oracles.conformance(full, view, feed.flags.get(name, set())):
                f["props"] = sorted(set(f["props"]) | {"C18"})
                f["oracle"] = "drawing-reference:" + f["oracle"]
                out.append(f)
        except ModelError:
            pass
    for f in oracles.c01_local(full) + oracles.c04_local(full):
        f["oracle"] = "drawing-reference:" + f["oracle"]
        out.append(f)
    stats["plot_points"] = stats.get("plot_points", 0) + 1
    return out


def run_scale(desc):
    """The scale probe: one circuit with more direct operations than the documented graph *depth* limit (5000) while
    being far shallower than it (n operations spread over `qubits` chains). Only C02's listing statements are
    checked (by identity, no model, no replays): every added operation listed exactly once, nothing else listed, never
    before the operation its relation refers to, twice the same, last entry listed. Reading times at this size is
    not part of it (a time query on a relation chain of more than about 250 steps ends in Python's recursion limit,
    on the original tree too: an exception, never a wrong answer)."""
    import warnings
    t0 = time.time()
    L = WORLD.lib
    n, nq = int(desc["scale"]["n"]), int(desc["scale"]["qubits"])
    WORLD.reset()
    findings = []
    with warnings.catch_warnings():
        warnings.simplefilter("ignore")
        c = L.DeclarativeCircuit()
        added = []
        for i in range(n):
            q = i % nq
            if i % 3 == 0:
                o = L.kind_class["Rx180"](qubit_index=q)
            elif i % 3 == 1:
                o = L.kind_class["Ry90"](qubit_index=q)
            else:
                o = L.kind_class["Wait"](qubit_index=q, duration_strategy=L.FixedDurationStrategy(0.5))
            added.append(c.add(o))
        ops = list(c.operations)
        again = list(c.operations)
        try:
            last = c.get_last_entry()
        except Exception:
            last = None
    pos = {}
    dup = 0
    for i, o in enumerate(ops):
        if id(o) in pos:
            dup += 1
        pos.setdefault(id(o), i)
    missing = [i for i, o in enumerate(added) if id(o) not in pos]
    foreign = len(ops) - dup - (len(added) - len(missing))
    if missing or dup or foreign:
        findings.append(oracles.F(["C02"], "scale:added-operations-not-listed-exactly-once", n=n, listed=len(ops), missing=len(missing),
                                  first_missing=missing[:3], duplicates=dup, foreign=foreign))
    for i, o in enumerate(ops):
        ref = o.relation_link.reference_node
        if ref is not None and id(ref) in pos and pos[id(ref)] > i:
            findings.append(oracles.F(["C02"], "scale:listed-before-its-reference", n=n, position=i, reference_position=pos[id(ref)]))
            break
    if len(ops) != len(again) or any(a is not b for a, b in zip(ops, again)):
        findings.append(oracles.F(["C02"], "scale:listing-not-stable", n=n))
    if last is None or id(last) not in pos or last is not added[-1]:
        findings.append(oracles.F(["C02"], "scale:last-entry-not-listed", n=n))
    for f in findings:
        f["point"] = 0
    WORLD.reset()
    dg = canon.jdigest({"scale": desc["scale"], "findings": [[f["oracle"], f["detail"]] for f in findings], "listed": len(ops)})
    return {"findings": findings, "stats": {"steps": n, "points": 1, "wall": time.time() - t0, "fired": [], "armed_unfired": 0,
                                            "probes": {"scale-probe": 1}}, "digest": dg, "checked_points": 1}


def run_descriptor(desc, max_points=12):
    """Execute one run descriptor. Returns dict(findings, stats, digest)."""
    if desc.get("scale"):
        return run_scale(desc)
    t0 = time.time()
    steps = desc["steps"]
    stats = {"steps": len(steps)}
    exP, ansP = driver.run_P(steps)
    findings = []
    leaked = WORLD.override_in_force()
    if leaked:
        findings.append(oracles.F(["C03", "C18"], "global-duration-lookup-not-restored"))
        WORLD.reset()
    stats["fired"] = [g for _, g in exP.fired]
    stats["armed_unfired"] = exP.armed_unfired
    # mutations that raised in P
    for i, a in ansP.items():
        if steps[i]["op"] != "OBS" and isinstance(a, dict) and "raises" in a:
            findings.append(oracles.F(MUT_PROPS.get(steps[i]["op"], []), "mutation-raises", step=i, op=steps[i]["op"], exc=a["raises"], msg=a.get("msg"), point=i))
    points = [i for i, st in enumerate(steps) if st["op"] == "OBS" and st.get("check") and i in ansP][:max_points]
    for i in points:
        fs = evaluate_point(desc, i, ansP[i], stats)
        findings.extend(fs)
        if any(not is_known(f) for f in fs):
            break   # the first failing point ends the run (later points would only echo it)
    # drawings-only perturbation => P!=Q findings also bear on C18
    obs_kinds = {st["what"] for st in steps if st["op"] == "OBS" and not st.get("check")}
    for f in findings:
        if f["oracle"] in ("P!=Q",) and any(st["op"] == "OBS" and st["what"] == "PLOT" for st in steps[: f.get("point", 0)]):
            if "C18" not in f["props"]:
                f["props"].append("C18")
    stats["wall"] = time.time() - t0
    dg = canon.jdigest({"ans": {str(k): v for k, v in ansP.items()}, "fired": stats["fired"],
                        "findings": [[f["oracle"], f["props"], f.get("point")] for f in findings]})
    return {"findings": findings, "stats": stats, "digest": dg, "checked_points": len(points)}
