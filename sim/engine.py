"""
Engine: for one run descriptor perform the perturbed execution P, the quiescent replays Q(i) / Q*(i), the
reference model M(i), and evaluate the oracles (DESIGN.md 3.3).
"""
import time

from sim.world import WORLD, HarnessError, BOOT_CONFIGS
from sim import driver, observe, oracles, canon
from sim.model import Model, ModelError

VIS = {"readout": 2.0, "microwave": 1.0, "flux": 1.0, "reset": 2.0}

MUT_PROPS = {"NEW": ["C01", "C02"], "ADD_OP": ["C01", "C02"], "ADD_SUB": ["C05", "C02"], "COPY": ["C05"],
             "APPLY": ["C06"], "FLATTEN": ["C11"], "NEW_LIB": [], "SET_DUR": ["C03"], "SET_REP": ["C06"],
             "OVR_ENTER": ["C03", "C18"], "OVR_LEAVE": ["C03", "C18"], "SET_INIT": ["C18"]}
OBS_PROPS = {"LIST": ["C02"], "LIST_TWICE": ["C02"], "TIMES": ["C01"], "DURATION": ["C04"], "COMPOSITES": ["C02"],
             "COMP_TIMES": ["C04"], "CHANNELS": ["C02"], "ACQ": ["C07"], "LAST": ["C02"], "STIM": ["C08"],
             "OPENQL": ["C15"], "REPR": ["C03"], "COPYOBS": ["C05"], "FULL": ["C02"], "PLOT": ["C18"]}


class Feed:
    """Drives the reference model from a quiescent replay (follows the implementation's admissible choices)."""

    def __init__(self, boot_durations):
        self.M = Model(boot_durations)
        self.findings = []
        self.flags = {}
        self.pure_lib = set()
        self.user_ops = set()
        self.probes = {}
        self.leaf_entries = {}
        self.last_struct_mut = {}   # id(root) -> step index of the last structural mutation
        self.born = {}              # handle -> (op, step, source)

    def probe(self, k, n=1):
        self.probes[k] = self.probes.get(k, 0) + n

    def touch(self, name, i):
        self.last_struct_mut[id(self.M.roots[name])] = i

    def __call__(self, ex, i, st, exc):
        M = self.M
        op = st["op"]
        if exc is not None:
            self.findings.append(oracles.F(MUT_PROPS.get(op, []), "mutation-raises", step=i, op=op, exc=type(exc).__name__, msg=str(exc)[:200]))
            # keep the model's handle table usable
            if op in ("COPY", "APPLY", "FLATTEN") and st.get("as") and st["c"] in M.roots:
                M.alias(st["c"], st["as"])
                self.flags[st["as"]] = self.flags.get(st["c"], set())
            return
        if op == "NEW":
            M.new(st["c"], st["reps"])
            self.flags[st["c"]] = set()
            self.leaf_entries[st["c"]] = []
            self.touch(st["c"], i)
        elif op == "ADD_OP":
            name = st["c"]
            pl = ex.placements[-1]
            ref = pl["ref_obj"]
            impl = {"rt": pl["rt"], "key": id(ex.handles[name].entries[-1])}
            if ref is None:
                impl["ref_key"] = None
            elif ref == "multi":
                impl["ref_key"] = None
                impl["checked"] = False
            else:
                impl["ref_key"] = id(ref)
                impl["ref_label"] = ["COMP", []] if observe.kind_of(ref) == "COMP" else observe.static_label(ref)
            if not pl["ret_is_op"]:
                self.findings.append(oracles.F(["C02"], "add-did-not-return-the-operation", step=i))
            v = M.add_op(name, st, impl)
            if not v.get("ok", True):
                self.findings.append(oracles.F(["C01"], "placement", step=i, **{k: x for k, x in v.items() if k != "ok"}))
            for k in ("tie", "all_specific", "ambiguous", "fallback"):
                if v.get(k):
                    self.probe("placement-" + k)
            self.leaf_entries.setdefault(st["c"], [])
            owner = ex.handles[name].origin or name
            self.leaf_entries.setdefault(owner, []).append(len(M.entries[name]) - 1)
            self.user_ops.add(id(M.roots[name]))
            self.touch(name, i)
            if st.get("rel") and st["rel"][0] == "JOINED_END":
                self.probe("joined-end")
        elif op == "ADD_SUB":
            name, child = st["c"], st["child"]
            sp = ex.sub_placements.get(i)
            c, v = M.add_sub(name, child, key=id(sp["obj"]) if sp else None)
            if sp is not None:
                ref = sp["ref_obj"]
                impl = {"rt": sp["rt"], "ref_key": None if ref is None else id(ref)}
                if ref is not None:
                    impl["ref_label"] = ["COMP", []] if observe.kind_of(ref) == "COMP" else observe.static_label(ref)
                v2 = M.place_sub(name, c, impl, v)
                if not v2.get("ok", True):
                    self.findings.append(oracles.F(["C01"], "placement-subcircuit", step=i, **{k: x for k, x in v2.items() if k != "ok"}))
                if v2.get("tie"):
                    self.probe("placement-tie")
            self.flags[name] |= {"copy"} | self.flags.get(child, set())
            if child in M.ambiguous:
                M.ambiguous.add(name)
            self.user_ops.add(id(M.roots[name]))
            self.touch(name, i)
            self.probe("add-sub")
            if M.roots[child].members and any(m.is_comp for m in M.roots[child].members):
                self.probe("nest-depth>=2")
        elif op == "NEW_LIB":
            a = ex.adopted[st["c"]]
            M.adopt(st["c"], a["LIST"]["ops"], a["COMPOSITES"]["comps"], a["keys_ops"], a["keys_comps"])
            self.flags[st["c"]] = {"lib"}
            self.pure_lib.add(id(M.roots[st["c"]]))
            self.leaf_entries[st["c"]] = []
            self.touch(st["c"], i)
            self.probe("lib-circuit")
        elif op == "COPY":
            M.copy(st["c"], st["as"])
            self.flags[st["as"]] = set(self.flags.get(st["c"], set())) | {"copy"}
            self.leaf_entries[st["as"]] = []
            self.born[st["as"]] = ("COPY", i, st["c"])
            self.touch(st["as"], i)
            if id(M.roots[st["c"]]) in self.pure_lib:
                self.pure_lib.add(id(M.roots[st["as"]]))
        elif op == "APPLY":
            name = st["c"]
            before = M.unrolled_leaf_count(name=name) if True else 0
            plain = M.leaf_count(name)
            root = M.roots[name]
            eff = before != plain or M.node_reps(root) != 1
            try:
                M.apply(name, st["as"])
            except ModelError as e:
                M.alias(name, st["as"])
                M.ambiguous.add(name)
                M.ambiguous.add(st["as"])
            self.flags[st["as"]] = self.flags.setdefault(name, set())
            if eff:
                self.flags[name].add("unroll")
                self.probe("effective-unroll")
                self.touch(name, i)
            self.born[st["as"]] = ("APPLY", i, name)
        elif op == "FLATTEN":
            name = st["c"]
            root = M.roots[name]
            had = any(m.is_comp for m in root.members)
            leaves = M.listing(root)
            root.members[:] = leaves
            for n in leaves:
                n.rel = None
            root.rel_known = False
            M.alias(name, st["as"])
            self.flags[st["as"]] = self.flags.setdefault(name, set())
            self.flags[name].add("flatten")
            self.touch(name, i)
            self.born[st["as"]] = ("FLATTEN", i, name)
            if had:
                self.probe("effective-flatten")
        elif op == "SET_DUR":
            M.dregs.setdefault(st["r"], {})[st["key"]] = float(st["v"])
        elif op == "SET_REP":
            M.rregs.setdefault(st["r"], {})[st["key"]] = int(st["v"])
        elif op == "OVR_ENTER":
            M.ovr.append(dict(st["cfg"]))
        elif op == "OVR_LEAVE":
            if M.ovr:
                M.ovr.pop()


def tree_rel_known(node):
    if not node.rel_known:
        return False
    return all(tree_rel_known(m) for m in node.members if m.is_comp)


def all_reps_one(M, node):
    if M.node_reps(node) != 1:
        return False
    return all(all_reps_one(M, m) for m in node.members if m.is_comp)


_MARGIN = {}
_KNOWN = {}


def known_diags():
    """diag tag -> entry of /verif/known_findings.json (open findings only; read once, never written)."""
    if "d" not in _KNOWN:
        import json
        import os
        p = os.path.join(os.path.dirname(os.path.dirname(os.path.abspath(__file__))), "known_findings.json")
        d = {}
        if os.path.exists(p):
            with open(p) as f:
                for k in json.load(f).get("findings", []):
                    if k.get("status", "open") == "open" and k.get("diag"):
                        d[(k["property"], k["diag"])] = k
        _KNOWN["d"] = d
    return _KNOWN["d"]


def is_known(f):
    diag = f.get("detail", {}).get("diag")
    if not diag:
        return False
    kd = known_diags()
    return all((p, diag) in kd for p in f["props"]) and f["oracle"] in kd[(f["props"][0], diag)].get("oracles", [f["oracle"]])


def plot_margin():
    """The margin the implementation itself uses (figure width - latest end) on a one-operation circuit."""
    if "m" not in _MARGIN:
        steps = [{"op": "NEW", "c": "m0", "reps": {"fixed": 1}},
                 {"op": "ADD_OP", "c": "m0", "kind": "Wait", "q": [0], "dur": {"fixed": 3.0}},
                 {"op": "OBS", "what": "PLOT", "c": "m0", "compact": True}]
        ex, ans = driver.run_Q(steps, 2)
        _MARGIN["m"] = ans["width"] - 3.0 if isinstance(ans, dict) and "width" in ans else None
    return _MARGIN["m"]


def q_star(steps, i, st, extra_steps=(), alt=False):
    """Quiescent replay with the model attached, then the full canonical observation of st['c']."""
    feed = Feed(WORLD.boot_durations)
    seq = list(steps[:i]) + list(extra_steps) + [dict(st)]
    upto = len(seq) - 1
    ex, full = driver.run_Q(seq, upto, full=True, alt=alt, on_mutation=feed)
    return ex, full, feed


def evaluate_point(desc, i, ansP, stats):
    """All oracles at observation point i. Returns list of findings."""
    steps = desc["steps"]
    st = steps[i]
    what = st["what"]
    name = st["c"]
    findings = []
    a = ansP
    if isinstance(a, dict) and "sinkfail" in a:
        stats["sinkfail_points"] = stats.get("sinkfail_points", 0) + 1
        return findings
    # ---- Q(i): the same observer alone on a fresh replay of the mutations
    exq, ansQ = driver.run_Q(steps, i)
    d = oracles.diff_answers(a, ansQ)
    if d:
        props = ["C03"]
        findings.append(oracles.F(props, "P!=Q", step=i, what=what, diff=d))
    # ---- Q*(i): full canonical observation + model
    alt = bool(desc.get("alt_baseline"))
    exs, full, feed = q_star(steps, i, st, alt=alt)
    findings.extend(feed.findings)
    if isinstance(full, dict) and "raises" in full and len(full) <= 2:
        findings.append(oracles.F(OBS_PROPS.get(what, []), "observer-raises", step=i, exc=full["raises"], msg=full.get("msg")))
        return findings
    if what == "FULL":
        # observer-order independence of the baseline itself: compare what both orders report
        shared = [k for k in full if isinstance(ansQ, dict) and k in ansQ]
        d2 = oracles.diff_answers({k: ansQ[k] for k in shared}, {k: full[k] for k in shared})
    else:
        own = full.get(what)
        d2 = oracles.diff_answers(ansQ, own) if own is not None else None
    if d2:
        findings.append(oracles.F(["C03"], "Q!=Q*", step=i, what=what, diff=d2))
    for k, exc, msg in oracles.raised(full):
        if k in ("STIM", "OPENQL"):
            continue   # reported (and diagnosed) by the export oracles
        findings.append(oracles.F(OBS_PROPS.get(k, ["C02"]), "observer-raises", step=i, observer=k, exc=exc, msg=msg))
    M = feed.M
    if name not in M.roots:
        return findings
    root = M.roots[name]
    flags = feed.flags.get(name, set())
    stats["points"] = stats.get("points", 0) + 1
    for k, v in feed.probes.items():
        stats.setdefault("probes", {})
        stats["probes"][k] = stats["probes"].get(k, 0) + v
    # local oracles
    owner = exs.handles[name].origin or name
    findings.extend(oracles.c02_local(full, feed.leaf_entries.get(owner), owner))
    findings.extend(oracles.c01_local(full))
    findings.extend(oracles.c04_local(full))
    # model conformance
    if name not in M.ambiguous:
        try:
            view = M.view(name)
            view["rel_known"] = tree_rel_known(root)
            findings.extend(oracles.conformance(full, view, flags))
            if view.get("t") is not None:
                stats["timed_points"] = stats.get("timed_points", 0) + 1
        except ModelError as e:
            stats["model_errors"] = stats.get("model_errors", 0) + 1
    else:
        stats["ambiguous_points"] = stats.get("ambiguous_points", 0) + 1
    # acquisition
    applied = all_reps_one(M, root)
    in_scope = M.measurements_in_scope(name)
    if not in_scope:
        stats["acq_out_of_scope"] = stats.get("acq_out_of_scope", 0) + 1
    findings.extend(oracles.c07(full, in_scope, applied))
    if id(root) in feed.pure_lib and id(root) not in feed.user_ops and applied:
        findings.extend(oracles.c07_monotone(full, True))
    # exports
    findings.extend(oracles.c08(full))
    findings.extend(oracles.c15(full))
    # drawing
    if what == "PLOT" and isinstance(a, dict) and "plot" in a:
        findings.extend(plot_oracle(desc, i, st, ansQ, stats))
    for f in findings:
        f.setdefault("point", i)
    return findings


def plot_oracle(desc, i, st, plot, stats):
    steps = desc["steps"]
    extra = []
    if st.get("compact", True):
        extra = [{"op": "OVR_ENTER", "cfg": dict(VIS)}]
    ex, full, feed = q_star(steps, i, {"op": "OBS", "what": "FULL", "c": st["c"]}, extra_steps=extra)
    t = (full.get("TIMES") or {}).get("t")
    ch = (full.get("CHANNELS") or {}).get("ch") or []
    valid = []
    for q, _ in ch:
        if q not in valid:
            valid.append(q)
    mt = [(x[1], x[2]) for x in t] if t is not None else None
    out = oracles.c18_positions(plot, st, full, mt, plot_margin(), valid)
    # the clean schedule used as reference is itself checked against the model
    M = feed.M
    name = st["c"]
    if name in M.roots and name not in M.ambiguous:
        try:
            view = M.view(name)
            view["rel_known"] = tree_rel_known(M.roots[name])
            for f in oracles.conformance(full, view, feed.flags.get(name, set())):
                f["props"] = sorted(set(f["props"]) | {"C18"})
                f["oracle"] = "drawing-reference:" + f["oracle"]
                out.append(f)
        except ModelError:
            pass
    for f in oracles.c01_local(full) + oracles.c04_local(full):
        f["oracle"] = "drawing-reference:" + f["oracle"]
        out.append(f)
    stats["plot_points"] = stats.get("plot_points", 0) + 1
    return out


def run_descriptor(desc, max_points=12):
    """Execute one run descriptor. Returns dict(findings, stats, digest)."""
    t0 = time.time()
    steps = desc["steps"]
    stats = {"steps": len(steps)}
    exP, ansP = driver.run_P(steps)
    findings = []
    leaked = WORLD.override_in_force()
    if leaked:
        findings.append(oracles.F(["C03", "C18"], "global-duration-lookup-not-restored"))
        WORLD.reset()
    stats["fired"] = [g for _, g in exP.fired]
    stats["armed_unfired"] = exP.armed_unfired
    # mutations that raised in P
    for i, a in ansP.items():
        if steps[i]["op"] != "OBS" and isinstance(a, dict) and "raises" in a:
            findings.append(oracles.F(MUT_PROPS.get(steps[i]["op"], []), "mutation-raises", step=i, op=steps[i]["op"], exc=a["raises"], msg=a.get("msg"), point=i))
    points = [i for i, st in enumerate(steps) if st["op"] == "OBS" and st.get("check") and i in ansP][:max_points]
    for i in points:
        fs = evaluate_point(desc, i, ansP[i], stats)
        findings.extend(fs)
        if any(not is_known(f) for f in fs):
            break   # the first failing point ends the run (later points would only echo it)
    # drawings-only perturbation => P!=Q findings also bear on C18
    obs_kinds = {st["what"] for st in steps if st["op"] == "OBS" and not st.get("check")}
    for f in findings:
        if f["oracle"] in ("P!=Q",) and any(st["op"] == "OBS" and st["what"] == "PLOT" for st in steps[: f.get("point", 0)]):
            if "C18" not in f["props"]:
                f["props"].append("C18")
    stats["wall"] = time.time() - t0
    dg = canon.jdigest({"ans": {str(k): v for k, v in ansP.items()}, "fired": stats["fired"],
                        "findings": [[f["oracle"], f["props"], f.get("point")] for f in findings]})
    return {"findings": findings, "stats": stats, "digest": dg, "checked_points": len(points)}
