"""
Reference model (DESIGN.md 3.4). Pure Python, no import of qce_circuit, no caches: everything is
recomputed from scratch on every question. Semantics are the property statements, not the code.

A circuit is a tree of nodes. Leaf: kind, channels, duration spec, tag/annotation, relation.
Sub-circuit: members in add order, repetition spec, relation. Where the specification leaves freedom
(which of several equally deep channel-sharing members an unrelated operation follows) the model checks
that the implementation's choice is admissible and then follows it.
"""
ALL = "ALL"

MW_KINDS = {"Identity", "Hadamard", "Rx180", "Rx90", "Rxm90", "Ry180", "Ry90", "Rym90", "Rx180ef",
            "VirtualPhase", "Rphi90"}


_TABLES = {}


def set_tables(tables):
    """Tables calibrated from the implementation (sim.lib.calibrate); kinds without an entry keep the documented ones."""
    _TABLES.clear()
    _TABLES.update({k: v for k, v in (tables or {}).items() if "error" not in v})


def kind_channels(kind, q, chan=None):
    t = _TABLES.get(kind)
    if t is not None:
        c = chan or t["default_chan"] or ALL
        if t["multi"]:
            per = [p[1] for p in t["pattern"] if p[0] == 0] or [ALL]
            return [[x, (c if name == "PARAM" else name)] for x in q for name in per]
        return [[q[p[0]], (c if p[1] == "PARAM" else p[1])] for p in t["pattern"]]
    c = chan or ALL
    if kind in ("SingleQubitOperation", "Reset", "DetectorOperation", "LogicalObservableOperation"):
        return [[q[0], ALL]]
    if kind in MW_KINDS:
        return [[q[0], "MW"]]
    if kind == "VirtualPark":
        return [[q[0], "FL"]]
    if kind in ("Wait", "VirtualVacant", "VirtualEmpty"):
        return [[q[0], c]]
    if kind == "DispersiveMeasure":
        return [[q[0], "RO"]]
    if kind == "TwoQubitOperation":
        return [[q[0], ALL], [q[1], ALL]]
    if kind == "CPhase":
        return [[q[0], "FL"], [q[0], "MW"], [q[1], "FL"], [q[1], "MW"]]
    if kind == "TwoQubitVirtualPhase":
        return [[q[0], "MW"], [q[1], "MW"]]
    if kind == "VirtualTwoQubitVacant":
        return [[q[0], c], [q[1], c]]
    if kind in ("Barrier", "CoordinateShiftOperation"):
        return [[x, ALL] for x in q]
    raise ValueError(kind)


def kind_default_dur(kind):
    t = _TABLES.get(kind)
    if t is not None:
        return tuple(t["dur"])
    if kind == "Reset":
        return ("global", "reset")
    if kind in MW_KINDS:
        return ("global", "microwave")
    if kind in ("VirtualPark", "CPhase"):
        return ("global", "flux")
    if kind == "DispersiveMeasure":
        return ("global", "readout")
    if kind == "Barrier":
        return ("fixed", 0.5)
    return ("fixed", 0.0)


TAKES_DUR = {"SingleQubitOperation", "Wait", "TwoQubitOperation", "VirtualVacant", "VirtualTwoQubitVacant", "VirtualEmpty"}
TAKES_CHAN = {"Wait", "VirtualVacant", "VirtualTwoQubitVacant", "VirtualEmpty"}
NO_REL = {"Barrier", "CoordinateShiftOperation"}


def share(a, b):
    return a[0] == b[0] and (a[1] == b[1] or a[1] == ALL or b[1] == ALL)


class Node:
    __slots__ = ("kind", "ch", "dur", "extra", "rel", "members", "reps", "key", "areg", "sid", "rel_known", "dur_known", "fixed_dur", "deflink")

    def __init__(self, kind):
        self.kind = kind
        self.ch = []
        self.dur = None          # ('global',k) | ('fixed',v) | ('reg', r, key) | None (unknown)
        self.extra = []          # tag / annotation part of the static label
        self.rel = None          # None | (rt, node) | ('MULTI', [nodes])
        self.members = None      # list for sub-circuits
        self.reps = None         # ('fixed', n) | ('reg', r, key)
        self.key = None          # binding to an implementation object (opaque to the model)
        self.areg = None         # measurements: sid of the circuit whose registry indexes it
        self.sid = None          # sub-circuit identity (registry target)
        self.rel_known = True
        self.dur_known = True
        self.fixed_dur = None
        self.deflink = False     # sub-circuits: still carries the no-relation link every default-constructed circuit shares

    @property
    def is_comp(self):
        return self.members is not None

    def label(self):
        return [self.kind, self.ch] + self.extra


class ModelError(Exception):
    pass


class _AmbiguousView:
    """Set-like view keyed by handle name but stored per structure, so that aliases share the mark."""

    def __init__(self, model):
        self.m = model

    def add(self, name):
        if name in self.m.roots:
            # ... and so do the circuits a live-nested circuit sits in
            for node in self.m.chain_of(self.m.roots[name]):
                self.m._ambiguous_roots.add(id(node))

    def __contains__(self, name):
        return name in self.m.roots and any(id(n) in self.m._ambiguous_roots for n in self.m.chain_of(self.m.roots[name]))


class Model:
    def __init__(self, boot_durations):
        self.boot = dict(boot_durations)
        self.ovr = []
        self.dregs = {}
        self.rregs = {}
        self.roots = {}        # handle name -> root Node
        self.entries = {}      # handle name -> list of nodes (shared between aliases)
        self.hkind = {}
        self._sid = 0
        self.notes = []        # placement verdicts etc.
        self.by_sid = {}       # registry target id -> sub-circuit node
        self.live_parent = {}  # id(live-nested circuit) -> the circuit it sits in
        self.consumed = set()  # handle names of live-nested circuits
        self.bound = set()     # handle names of circuits constructed with a relation to an operation of another circuit
        self._ambiguous_roots = set()   # structures whose relation structure can no longer be followed exactly
        self.ambiguous = _AmbiguousView(self)

    # ------------------------------------------------------------------ config
    def cfg_global(self, key):
        if self.ovr:
            return self.ovr[-1].get(key)
        return self.boot[key]

    def node_duration(self, n):
        d = n.dur
        if d is None:
            return None
        if d[0] == "fixed":
            return d[1]
        if d[0] == "global":
            return self.cfg_global(d[1])
        if d[0] == "reg":
            return self.dregs.get(d[1], {}).get(d[2], 0.0)
        raise ModelError(d)

    def node_reps(self, n):
        r = n.reps
        if r[0] == "fixed":
            return r[1]
        return self.rregs.get(r[1], {}).get(r[2], 1)

    def chain_of(self, node):
        """The circuit and every circuit it is live-nested in (innermost first)."""
        out = [node]
        while id(out[-1]) in self.live_parent:
            out.append(self.live_parent[id(out[-1])])
        return out

    def top_of(self, node):
        return self.chain_of(node)[-1]

    def holds_live(self, node):
        """True iff a live-nested circuit sits somewhere below `node`."""
        return any(id(b) in self.live_parent for b in self.blocks_below(node, False))

    def inherited_ok(self, blocks, impl):
        """An operation that is first on its channels in its block has no relation of its own; if the block (or the
        nearest related block around it) is related to something, the operation is handed that relation
        (it starts with the block). `blocks`: the block and the blocks around it, innermost first."""
        for b in blocks:
            if b.rel is not None:
                if b.rel[0] == "MULTI":
                    return True
                if impl.get("rt") != b.rel[0]:
                    return False
                return b.rel[1].key is None or b.rel[1].key == impl.get("ref_key")
        return False

    def new_sid(self, node=None):
        self._sid += 1
        if node is not None:
            self.by_sid[self._sid] = node
        return self._sid

    # ------------------------------------------------------------------ construction
    def new(self, name, reps, rel=None):
        root = Node("COMP")
        root.members = []
        if rel is not None:
            # constructed with a relation to entry k of another circuit: not the shared default link
            rt, parent, k = rel
            root.rel = (rt, self.entries[parent][k])
            self.bound.add(name)
        root.reps = ("fixed", reps["fixed"]) if "fixed" in reps else ("reg", reps["reg"][0], reps["reg"][1])
        root.sid = self.new_sid(root)
        root.deflink = rel is None
        self.roots[name] = root
        self.entries[name] = []
        self.hkind[name] = "decl"
        return root

    def make_leaf(self, st):
        kind = st["kind"]
        n = Node(kind)
        n.ch = kind_channels(kind, st["q"], st.get("chan") if kind in TAKES_CHAN else None)
        if kind in TAKES_DUR and st.get("dur") is not None:
            d = st["dur"]
            n.dur = ("fixed", float(d["fixed"])) if "fixed" in d else ("reg", d["reg"][0], d["reg"][1])
        else:
            n.dur = kind_default_dur(kind)
        if kind == "DispersiveMeasure":
            n.extra = [["tag", st.get("tag", "")]]
            n.areg = self.roots[st["areg"]].sid
        elif kind == "DetectorOperation":
            d = st.get("det", {})
            n.extra = [["det", d.get("last_acquisition_index"), d.get("main_target"), d.get("secondary_target"),
                        d.get("reference_offset"), d.get("secondary_offset")]]
        elif kind == "LogicalObservableOperation":
            d = st.get("det", {})
            n.extra = [["obs", d.get("last_acquisition_index"), d.get("main_target")]]
        elif kind == "CoordinateShiftOperation":
            s = st.get("shift", [0, 0])
            n.extra = [["shift", s[0], s[1]]]
        return n

    # channels / depth -------------------------------------------------------
    def channels_of(self, n):
        if not n.is_comp:
            return n.ch
        out = []
        for m in n.members:
            out.extend(self.channels_of(m))
        return out

    def depths(self, block):
        """member -> (lo, hi) relation depth inside its block."""
        memo = {}

        def d(m, guard=0):
            if id(m) in memo:
                return memo[id(m)]
            if guard > 10000:
                raise ModelError("relation cycle")
            if m.rel is None:
                r = (1, 1)
            elif m.rel[0] == "MULTI":
                ds = [d(x, guard + 1) for x in m.rel[1]]
                r = (min(x[0] for x in ds) + 1, max(x[1] for x in ds) + 1) if ds else (1, 1)
            else:
                p = d(m.rel[1], guard + 1)
                r = (p[0] + 1, p[1] + 1)
            memo[id(m)] = r
            return r

        return {id(m): d(m) for m in block.members}

    def admissible(self, block, chans):
        """(sharing members, admissible subset) for an unrelated operation on `chans`."""
        sharing = []
        for m in block.members:
            mc = self.channels_of(m)
            if any(share(a, b) for a in chans for b in mc):
                sharing.append(m)
        if not sharing:
            return [], []
        dp = self.depths(block)
        need = max(dp[id(m)][0] for m in sharing)
        return sharing, [m for m in sharing if dp[id(m)][1] >= need]

    def node_signature(self, m):
        if m.rel is None:
            return ["-", None]
        if m.rel[0] == "MULTI":
            return ["MULTI", None]
        return [m.rel[0], m.rel[1].label()]

    def narrow(self, cands, impl):
        """Among unbound members with the same label keep those related the way the implementation's object is."""
        sig = impl.get("ref_sig")
        if sig is None or len(cands) <= 1:
            return cands
        keep = [m for m in cands if self.node_signature(m) == sig]
        return keep or cands

    def is_member(self, block, node):
        return any(m is node for m in block.members)

    def find_by_key(self, block, key):
        for m in block.members:
            if m.key is not None and m.key == key:
                return m
        return None

    # ------------------------------------------------------------------ mutations
    def add_op(self, name, st, impl):
        """impl: {'rt': type name, 'ref_key': key of the object the implementation linked to or None,
                  'ref_label': static label of that object or None, 'key': key of the new operation}
        Returns a placement verdict dict."""
        root = self.roots[name]
        n = self.make_leaf(st)
        n.key = impl.get("key")
        verdict = {"ok": True}
        rel = st.get("rel")
        explicit_target = None
        if rel is not None:
            tgt = self.entries[name][rel[1]]
            if self.is_member(root, tgt):
                explicit_target = tgt
        if explicit_target is not None:
            n.rel = (rel[0], explicit_target)
            if root.rel_known and impl.get("checked", True):
                if impl["rt"] != rel[0] or impl.get("ref_key") != explicit_target.key:
                    verdict = {"ok": False, "why": "explicit relation not kept",
                               "want": [rel[0], explicit_target.label()], "got": [impl["rt"], impl.get("ref_label")]}
        else:
            if rel is not None:
                verdict["fallback"] = True   # relation to something that is no longer in the circuit
            if root.rel_known:
                sharing, adm = self.admissible(root, n.ch)
                if not sharing:
                    if impl.get("ref_key") is not None and impl.get("checked", True) and not self.inherited_ok(self.chain_of(root), impl):
                        verdict = {"ok": False, "why": "first on its channels but linked to an operation",
                                   "got": [impl["rt"], impl.get("ref_label")]}
                    n.rel = None
                else:
                    chosen = None
                    if impl.get("ref_key") is not None:
                        chosen = self.find_by_key(root, impl["ref_key"])
                    if chosen is None and impl.get("ref_key") is not None:
                        # the implementation linked to an object the model has no binding for
                        # (a member born in a copy): resolve by label among the unbound members
                        cands = self.narrow([m for m in root.members if m.key is None and m.label() == impl.get("ref_label")], impl)
                        cadm = [m for m in cands if any(m is a for a in adm)]
                        if len(cadm) == 1:
                            chosen = cadm[0]
                            chosen.key = impl["ref_key"]
                        elif len(cands) >= 1 and not cadm:
                            chosen = cands[0]
                        elif len(cadm) > 1:
                            chosen = cadm[-1]
                            self.ambiguous.add(name)
                            verdict["ambiguous"] = True
                    if chosen is None:
                        if impl.get("checked", True):
                            verdict = {"ok": False, "why": "operation shares a channel with earlier operations but was placed at the circuit start" if impl.get("ref_key") is None else "linked to an operation that is not a member of the circuit",
                                       "got": [impl["rt"], impl.get("ref_label")],
                                       "admissible": [m.label() for m in adm]}
                        chosen = adm[-1]
                    elif not any(chosen is a for a in adm):
                        if impl.get("checked", True) and not verdict.get("ambiguous"):
                            verdict = {"ok": False, "why": "linked to a channel-sharing operation that is not the deepest in relation steps",
                                       "got": [impl["rt"], chosen.label()], "admissible": [m.label() for m in adm]}
                    elif impl["rt"] != "FOLLOWED_BY" and impl.get("checked", True):
                        verdict = {"ok": False, "why": "implicit placement must be FOLLOWED_BY", "got": [impl["rt"]]}
                    if len(adm) > 1:
                        verdict["tie"] = True
                    if any(c[1] == ALL for c in n.ch) != any(c[1] == ALL for c in self.channels_of(chosen)):
                        verdict["all_specific"] = True
                    n.rel = ("FOLLOWED_BY", chosen)
            else:
                n.rel = None
        root.members.append(n)
        self.entries[name].append(n)
        return verdict

    def add_op_in(self, name, st, impl):
        """Add an unrelated operation to the nested sub-circuit that is entry st['k'] of the handle."""
        block = self.entries[name][st["k"]]
        root = self.roots[name]
        n = self.make_leaf(st)
        n.key = impl.get("key")
        verdict = {"ok": True}
        if not (block.is_comp and self._contains(root, block)):
            raise ModelError("entry is not a nested sub-circuit of the handle")
        if block.rel_known:
            sharing, adm = self.admissible(block, n.ch)
            if not sharing:
                if impl.get("ref_key") is not None and impl.get("checked", True) and not self.inherited_ok([block] + self.chain_of(root), impl):
                    verdict = {"ok": False, "why": "first on its channels in the nested block but linked to an operation", "got": [impl["rt"], impl.get("ref_label")]}
                n.rel = None
            else:
                chosen = self.find_by_key(block, impl["ref_key"]) if impl.get("ref_key") is not None else None
                if chosen is None and impl.get("ref_key") is not None:
                    cands = self.narrow([m for m in adm if m.key is None and m.label() == impl.get("ref_label")], impl)
                    if len(cands) >= 1:
                        chosen = cands[-1]
                        if len(cands) == 1:
                            chosen.key = impl["ref_key"]
                        else:
                            self.ambiguous.add(name)
                            verdict["ambiguous"] = True
                if chosen is None:
                    if impl.get("checked", True):
                        verdict = {"ok": False, "why": "operation shares a channel with earlier operations of the nested block but was not placed after one of the deepest",
                                   "got": [impl["rt"], impl.get("ref_label")], "admissible": [m.label() for m in adm]}
                    chosen = adm[-1]
                elif not any(chosen is a for a in adm) and not verdict.get("ambiguous"):
                    if impl.get("checked", True):
                        verdict = {"ok": False, "why": "linked to a channel-sharing operation that is not the deepest in relation steps",
                                   "got": [impl["rt"], chosen.label()], "admissible": [m.label() for m in adm]}
                elif impl["rt"] != "FOLLOWED_BY" and impl.get("checked", True):
                    verdict = {"ok": False, "why": "implicit placement must be FOLLOWED_BY", "got": [impl["rt"]]}
                if len(adm) > 1:
                    verdict["tie"] = True
                n.rel = ("FOLLOWED_BY", chosen)
        block.members.append(n)
        return verdict

    def _contains(self, block, node):
        for m in block.members:
            if m is node:
                return True
            if m.is_comp and self._contains(m, node):
                return True
        return False

    def copy_tree(self, node, retarget=None, lookup=None):
        """Deep copy of a sub-circuit; internal relations re-pointed, bindings dropped."""
        lookup = {} if lookup is None else lookup
        retarget = retarget or {}

        def cp(n):
            c = Node(n.kind)
            c.ch = [list(x) for x in n.ch]
            c.dur = n.dur
            c.extra = [list(x) for x in n.extra]
            c.rel_known, c.dur_known, c.fixed_dur = n.rel_known, n.dur_known, n.fixed_dur
            c.areg = retarget.get(n.areg, n.areg)
            if n.is_comp:
                c.reps = n.reps
                c.sid = self.new_sid(c)
                retarget_local[n.sid] = c.sid
                c.members = []
                for m in n.members:
                    mc = cp(m)
                    lookup[id(m)] = mc
                    c.members.append(mc)
                for m, mc in zip(n.members, c.members):
                    if m.rel is None:
                        mc.rel = None
                    elif m.rel[0] == "MULTI":
                        mc.rel = ("MULTI", [lookup[id(x)] for x in m.rel[1] if id(x) in lookup])
                    else:
                        mc.rel = (m.rel[0], lookup[id(m.rel[1])]) if id(m.rel[1]) in lookup else None
            return c

        retarget_local = {}
        out = cp(node)
        return out

    def blocks_below(self, node, include_self):
        out = [node] if include_self else []

        def walk(b):
            for m in b.members:
                if m.is_comp:
                    out.append(m)
                    walk(m)

        walk(node)
        return out

    def key_collision(self, node, self_is_key):
        """Known finding D17: sub-circuits are lookup keys while a circuit is copied and compare by value (relation
        link, repetition strategy). Circuits that still carry the no-relation link all default-constructed circuits
        share and have equal repetition strategies are the same key. True iff, in a copy of `node`, something that is
        looked up (a block of the copied circuit as relation target, or the reference circuit of the acquisition
        registry of one of its measurements - possibly a circuit outside of it) is the same key as another block
        of the copied circuit. The circuit itself is a key when it is added as a sub-circuit (not when it is copied
        or repeated)."""
        below = self.blocks_below(node, False)
        keys = [b for b in below if b.deflink] + ([node] if self_is_key and node.deflink else [])
        if not keys:
            return False
        looked_up = list(below) + [node]

        def measures(b):
            for m in b.members:
                if m.is_comp:
                    measures(m)
                elif m.kind == "DispersiveMeasure" and m.areg in self.by_sid:
                    looked_up.append(self.by_sid[m.areg])

        measures(node)
        for x in looked_up:
            if not x.deflink:
                continue
            for k in keys:
                if k is not x and repr(k.reps) == repr(x.reps):
                    return True
        return False

    def _kill_scope(self, node):
        if node.kind == "DispersiveMeasure":
            node.areg = -1
        if node.is_comp:
            for m in node.members:
                self._kill_scope(m)

    def add_sub(self, name, child_name, key=None, via_structure=False):
        root = self.roots[name]
        child = self.roots[child_name]
        if via_structure:
            # structure.copy() added to the structure: nothing re-targets the acquisition registries
            collision = self.key_collision(child, False)
            c = self.copy_tree(child)
        else:
            collision = self.key_collision(child, True)
            c = self.copy_tree(child, retarget={child.sid: root.sid})
            # measurements indexed by the child's registry are indexed by the parent's afterwards
            self._retarget(c, child.sid, root.sid)
        c.key = key
        verdict = {"ok": True}
        if collision:
            # which copy a relation or an acquisition registry is re-pointed to is not defined then
            verdict["collision"] = True
            self._kill_scope(c)
            self.ambiguous.add(name)
        if root.rel_known:
            sharing, adm = self.admissible(root, self.channels_of(c))
            c.rel = None
            verdict["sharing"] = [m for m in sharing]
            verdict["adm"] = adm
        root.members.append(c)
        self.entries[name].append(c)
        if not child.rel_known:
            pass
        return c, verdict

    def add_live(self, name, child_name, key=None):
        """Nest the live structure of another circuit: the very same block is a member of the parent afterwards
        (later additions to it show in the parent); its measurements stay indexed by its own registry."""
        root = self.roots[name]
        c = self.roots[child_name]
        if c is root or self._contains(c, root) or self._contains(root, c):
            raise ModelError("live nesting would make the circuit contain itself / the block twice")
        c.key = key
        verdict = {"ok": True}
        if root.rel_known:
            sharing, adm = self.admissible(root, self.channels_of(c))
            c.rel = None
            verdict["sharing"] = [m for m in sharing]
            verdict["adm"] = adm
        root.members.append(c)
        self.entries[name].append(c)
        self.live_parent[id(c)] = root
        for h, r in self.roots.items():
            if r is c:
                self.consumed.add(h)
        return c, verdict

    def settle_live(self, c):
        """A live-nested circuit that is placed behind something receives a link of its own."""
        if c.rel is not None:
            c.deflink = False

    def place_sub(self, name, c, impl, verdict):
        """Second half of add_sub: follow the implementation's placement of the nested copy."""
        root = self.roots[name]
        if not root.rel_known:
            return {"ok": True}
        sharing, adm = verdict["sharing"], verdict["adm"]
        out = {"ok": True}
        if not sharing:
            if impl.get("ref_key") is not None and not self.inherited_ok(self.chain_of(root), impl):
                out = {"ok": False, "why": "sub-circuit first on its channels but linked to an operation"}
            return out
        chosen = self.find_by_key(root, impl.get("ref_key")) if impl.get("ref_key") is not None else None
        if chosen is None and impl.get("ref_key") is not None:
            cands = self.narrow([m for m in adm if m.key is None and m.label() == impl.get("ref_label")], impl)
            if len(cands) >= 1:
                chosen = cands[-1]
                if len(cands) > 1:
                    self.ambiguous.add(name)
                    out["ambiguous"] = True
                else:
                    chosen.key = impl["ref_key"]
        if chosen is None:
            out = {"ok": False, "why": "sub-circuit shares a channel with earlier operations but was not placed after one of them",
                   "got": [impl.get("rt"), impl.get("ref_label")], "admissible": [m.label() for m in adm]}
            chosen = adm[-1]
        elif not any(chosen is a for a in adm) and not out.get("ambiguous"):
            out = {"ok": False, "why": "sub-circuit linked to a channel-sharing operation that is not the deepest",
                   "got": chosen.label(), "admissible": [m.label() for m in adm]}
        elif impl.get("rt") != "FOLLOWED_BY":
            out = {"ok": False, "why": "implicit placement must be FOLLOWED_BY", "got": [impl.get("rt")]}
        if len(adm) > 1:
            out["tie"] = True
        c.rel = ("FOLLOWED_BY", chosen)
        return out

    def _retarget(self, node, old, new):
        if node.areg == old:
            node.areg = new
        if node.is_comp:
            for m in node.members:
                self._retarget(m, old, new)

    def copy(self, name, as_name):
        src = self.roots[name]
        c = self.copy_tree(src)
        c.rel = None
        self.roots[as_name] = c
        self.entries[as_name] = []
        self.hkind[as_name] = "comp"
        if name in self.ambiguous:
            self.ambiguous.add(as_name)
        if self.key_collision(src, False):
            self._kill_scope(c)
            self.ambiguous.add(as_name)
            self.notes.append("copy-key-collision")
        return c

    def alias(self, name, as_name):
        if name in self.bound:
            self.bound.add(as_name)
        self.roots[as_name] = self.roots[name]
        self.entries[as_name] = self.entries[name]
        self.hkind[as_name] = self.hkind[name]
        if name in self.ambiguous:
            self.ambiguous.add(as_name)

    # ------------------------------------------------------------------ unroll
    def graph_leaves(self, block):
        """Members nothing refers to. Returns (reading A, reading B) - see DESIGN 6/C06."""
        referred_a, referred_b = set(), set()
        for m in block.members:
            if m.rel is None:
                continue
            if m.rel[0] == "MULTI":
                for x in m.rel[1]:
                    referred_b.add(id(x))
                # reading A: only the latest ending group member acquired a successor
                if m.rel[1]:
                    referred_a.add(id(self._latest(block, m.rel[1])))
            else:
                referred_a.add(id(m.rel[1]))
                referred_b.add(id(m.rel[1]))
        a = [m for m in block.members if id(m) not in referred_a]
        b = [m for m in block.members if id(m) not in referred_b]
        return a, b

    def _latest(self, block, group):
        try:
            times = self.schedule_block(block)
        except ModelError:
            return group[0]
        best = group[0]
        for x in group:
            if times[id(x)][1] > times[id(best)][1]:
                best = x
        return best

    def unroll(self, block, name=None):
        """apply modifiers in place: n chained copies of the content, nested counts multiply, counts reset."""
        n = self.node_reps(block)
        # nested blocks first: the copies of this block are chained behind what the block finally contains
        for m in list(block.members):
            if m.is_comp:
                self.unroll(m, name)
        if n > 1:
            if self.key_collision(block, False):
                if name is not None:
                    self.ambiguous.add(name)
                self._kill_scope(block)
                self.notes.append("unroll-key-collision")
            original = self.copy_tree(block)
            for _ in range(n - 1):
                cp = self.copy_tree(original)
                if block.rel_known:
                    la, lb = self.graph_leaves(block)
                    if block.dur_known and name is not None and la and lb:
                        try:
                            times = self.schedule_block(block)
                            ma = max(times[id(x)][1] for x in la)
                            mb = max(times[id(x)][1] for x in lb)
                            if ma != mb:
                                self.ambiguous.add(name)
                                self.notes.append("unroll-leaf-readings-differ")
                        except ModelError:
                            self.ambiguous.add(name)
                    for m in cp.members:
                        if m.rel is None and la:
                            m.rel = ("MULTI", list(la))
                block.members.extend(cp.members)
        block.reps = ("fixed", 1)

    def apply(self, name, as_name):
        self.unroll(self.roots[name], name)
        self.alias(name, as_name)

    # ------------------------------------------------------------------ schedule
    def schedule_block(self, block):
        """Times of the direct members of `block` relative to the block's own start (= 0):
        id(member) -> (start, end, duration). Sub-circuit duration = span over contained leaves."""
        out = {}
        state = {}

        def dur(m):
            if m.is_comp:
                return self.span(m)
            d = self.node_duration(m)
            if d is None:
                raise ModelError("unknown duration")
            return d

        def t(m):
            k = id(m)
            if k in out:
                return out[k]
            if state.get(k) == 1:
                raise ModelError("relation cycle")
            state[k] = 1
            d = dur(m)
            if m.rel is None:
                s = 0.0
            elif m.rel[0] == "MULTI":
                grp = m.rel[1]
                s = max(t(x)[1] for x in grp) if grp else 0.0
            else:
                rt, ref = m.rel
                rs, re_, _ = t(ref)
                if rt == "FOLLOWED_BY":
                    s = re_
                elif rt == "JOINED_START":
                    s = rs
                elif rt == "JOINED_END":
                    s = re_ - d
                else:
                    raise ModelError(rt)
            out[k] = (s, s + d, d)
            state[k] = 2
            return out[k]

        for m in block.members:
            t(m)
        return out

    def leaf_times(self, block, offset=0.0, acc=None):
        """Absolute (start, end, dur) of every leaf below `block` whose own start is `offset`."""
        acc = {} if acc is None else acc
        times = self.schedule_block(block)
        for m in block.members:
            s, e, d = times[id(m)]
            acc[id(m)] = (offset + s, offset + e, d)
            if m.is_comp:
                self.leaf_times(m, offset + s, acc)
        return acc

    def span(self, block):
        if not block.members:
            return 0.0
        acc = self.leaf_times(block, 0.0)
        starts, ends = [], []

        def walk(b):
            for m in b.members:
                if m.is_comp:
                    walk(m)
                else:
                    s, e, _ = acc[id(m)]
                    starts.append(s)
                    ends.append(e)

        walk(block)
        if not starts:
            return 0.0
        return max(ends) - min(starts)

    # ------------------------------------------------------------------ views
    def listing(self, block):
        """Breadth-first by relation depth (one admissible causal order)."""
        if not block.rel_known:
            order = list(block.members)
        else:
            children = {}
            roots = []
            for m in block.members:
                if m.rel is None:
                    roots.append(m)
                elif m.rel[0] == "MULTI":
                    p = self._latest(block, m.rel[1]) if m.rel[1] else None
                    if p is None:
                        roots.append(m)
                    else:
                        children.setdefault(id(p), []).append(m)
                else:
                    children.setdefault(id(m.rel[1]), []).append(m)
            order, layer = [], roots
            while layer:
                order.extend(layer)
                nxt = []
                for m in layer:
                    nxt.extend(children.get(id(m), []))
                layer = nxt
        out = []
        for m in order:
            if m.is_comp:
                out.extend(self.listing(m))
            else:
                out.append(m)
        return out

    def view(self, name, timed=True):
        """The model's answer in the dictionary format of sim.canon / sim.observe."""
        root = self.roots[name]
        leaves = self.listing(root)
        idx = {id(n): i for i, n in enumerate(leaves)}
        comps = []
        cidx = {}

        self._block_of = {}

        def walk(b, parent, depth):
            for m in b.members:
                self._block_of[id(m)] = b
                if m.is_comp:
                    j = len(comps)
                    cidx[id(m)] = j
                    comps.append({"node": m, "parent": parent, "depth": depth})
                    walk(m, j, depth + 1)

        walk(root, None, 0)
        times = None
        top = self.top_of(root)   # a live-nested circuit reports the times it has inside the circuit it sits in
        if timed and root.dur_known and top.dur_known and self._all_known(top):
            try:
                times = self.leaf_times(top, 0.0)
            except ModelError:
                times = None

        def refrec(m):
            if m.rel is None:
                return {"rt": "FOLLOWED_BY", "ref": None}
            if m.rel[0] == "MULTI":
                if not m.rel[1]:
                    return {"rt": "FOLLOWED_BY", "ref": None, "multi": True}
                tgt = self._latest(self._block_of[id(m)], m.rel[1])
                if tgt.is_comp:
                    return {"rt": "FOLLOWED_BY", "multi": True, "ref": ["comp", cidx[id(tgt)]] if id(tgt) in cidx else "ext"}
                return {"rt": "FOLLOWED_BY", "multi": True, "ref": ["op", idx[id(tgt)]] if id(tgt) in idx else "ext"}
            tgt = m.rel[1]
            if tgt.is_comp:
                return {"rt": m.rel[0], "ref": ["comp", cidx[id(tgt)]] if id(tgt) in cidx else "ext"}
            return {"rt": m.rel[0], "ref": ["op", idx[id(tgt)]] if id(tgt) in idx else "ext"}

        ops = []
        t = []
        for n in leaves:
            r = {"l": n.label()}
            r.update(refrec(n))
            ops.append(r)
            if times is not None:
                s, e, d = times[id(n)]
                t.append([n.kind, s, e, d])
        crecs, ct = [], []
        for rec in comps:
            m = rec["node"]
            lv = [idx[id(x)] for x in self.listing(m)]
            r = {"reps": self.node_reps(m), "leaves": lv, "parent": rec["parent"], "depth": rec["depth"]}
            r.update(refrec(m))
            crecs.append(r)
            if times is not None:
                s, e, d = times[id(m)]
                ct.append([s, e, d])
        out = {"ops": ops, "comps": crecs}
        if times is not None:
            out["t"] = t
            out["ct"] = ct
            out["dur"] = self.span(root)
        return out

    def _all_known(self, b):
        for m in b.members:
            if m.is_comp:
                if not m.dur_known or not self._all_known(m):
                    return False
            elif m.dur is None:
                return False
        return True

    def measurements_in_scope(self, name):
        """True iff every measurement below the handle is indexed by this circuit's own registry."""
        root = self.roots[name]
        ok = True

        def walk(b):
            nonlocal ok
            for m in b.members:
                if m.is_comp:
                    walk(m)
                elif m.kind == "DispersiveMeasure" and m.areg != root.sid:
                    ok = False

        walk(root)
        return ok

    def leaf_count(self, name):
        n = 0

        def walk(b):
            nonlocal n
            for m in b.members:
                if m.is_comp:
                    walk(m)
                else:
                    n += 1

        walk(self.roots[name])
        return n

    def unrolled_leaf_count(self, block=None, name=None):
        block = self.roots[name] if block is None else block
        tot = 0
        for m in block.members:
            if m.is_comp:
                tot += self.unrolled_leaf_count(m)
            else:
                tot += 1
        return tot * self.node_reps(block)

    def max_depth(self, block, d=0):
        best = d
        for m in block.members:
            if m.is_comp:
                best = max(best, self.max_depth(m, d + 1))
        return best

    # ------------------------------------------------------------------ adoption
    def adopt(self, name, obs_ops, obs_comps, keys_ops, keys_comps, durations=None, hkind="decl", areg_self=True):
        """Ingest the canonical observation of a real handle as the model state of `name`:
        membership (nesting, labels, repetition counts); relations and duration sources stay unknown."""
        root = Node("COMP")
        root.members = []
        root.reps = ("fixed", 1)
        root.sid = self.new_sid(root)
        root.deflink = True
        root.rel_known = False
        root.dur_known = False
        cnodes = []
        for j, k in enumerate(obs_comps):
            c = Node("COMP")
            c.members = []
            c.reps = ("fixed", k["reps"])
            c.sid = self.new_sid(c)
            c.rel_known = False
            c.dur_known = False
            c.key = keys_comps[j] if keys_comps else None
            cnodes.append(c)
        from sim.canon import op_block
        blk = op_block(obs_ops, obs_comps)
        # members in listing order: leaves and composites interleaved by first leaf position
        placed = set()

        def holder(j):
            return root if j is None else cnodes[j]

        first_leaf = {}
        for j, k in enumerate(obs_comps):
            first_leaf[j] = min(k["leaves"]) if k["leaves"] else 10 ** 9
        events = []
        for i in range(len(obs_ops)):
            events.append((i, 0, "op", i))
        for j in range(len(obs_comps)):
            events.append((first_leaf[j], -1 - (100000 - j), "comp", j))
        events.sort()
        for _, _, what, x in events:
            if what == "op":
                o = obs_ops[x]
                n = Node(o["l"][0])
                n.ch = [list(c) for c in o["l"][1]]
                n.extra = [list(e) for e in o["l"][2:]]
                n.dur = None
                if durations is not None:
                    n.dur = ("fixed", durations[x])
                n.key = keys_ops[x] if keys_ops else None
                if n.kind == "DispersiveMeasure":
                    n.areg = root.sid if areg_self else None
                holder(blk[x]).members.append(n)
            else:
                holder(obs_comps[x]["parent"]).members.append(cnodes[x])
        self.roots[name] = root
        self.entries.setdefault(name, [])
        self.hkind[name] = hkind
        return root
