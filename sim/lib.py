"""
The single place that names QCoCircuits symbols. Everything else goes through `load()`.
Only public names (module-level classes/functions a user imports) plus the two taps of Appendix E.
"""
from types import SimpleNamespace

# kind name -> (arity, params)   params: d = takes duration_strategy, c = takes qubit_channel,
#                                        a = acquisition (strategy+tag), det/obs/shift = annotation args,
#                                        multi = qubit list, norel = relation not accepted by constructor
KINDS = {
    "SingleQubitOperation": (1, "d"),
    "Reset": (1, ""),
    "Wait": (1, "dc"),
    "Identity": (1, ""),
    "Hadamard": (1, ""),
    "Rx180": (1, ""),
    "Rx90": (1, ""),
    "Rxm90": (1, ""),
    "Ry180": (1, ""),
    "Ry90": (1, ""),
    "Rym90": (1, ""),
    "Rx180ef": (1, ""),
    "VirtualPhase": (1, ""),
    "VirtualPark": (1, ""),
    "Rphi90": (1, ""),
    "TwoQubitOperation": (2, "d"),
    "CPhase": (2, ""),
    "TwoQubitVirtualPhase": (2, ""),
    "DispersiveMeasure": (1, "a"),
    "Barrier": (0, "multi,norel"),
    "VirtualVacant": (1, "dc"),
    "VirtualTwoQubitVacant": (2, "dc"),
    "VirtualEmpty": (1, "dc"),
    "DetectorOperation": (1, "det"),
    "LogicalObservableOperation": (1, "obs"),
    "CoordinateShiftOperation": (0, "multi,norel,shift"),
}


def load():
    import qce_circuit as q
    from qce_circuit.structure import circuit_operations as co
    from qce_circuit.structure import intrf_circuit_operation as ico
    from qce_circuit.structure import intrf_circuit_operation_composite as icc
    from qce_circuit.structure import registry_duration as rd
    from qce_circuit.structure import registry_repetition as rr
    from qce_circuit.structure import registry_acquisition as ra
    from qce_circuit.structure.intrf_acquisition_operation import IAcquisitionOperation, AcquisitionTag
    from qce_circuit.addon_stim import circuit_operations as sco
    from qce_circuit.addon_stim.factory_manager import to_stim
    from qce_circuit.addon_openql.factory_manager import to_openql
    from qce_circuit.addon_openql.platform_manager import PlatformManager
    from qce_circuit.visualization.visualize_circuit import display_circuit
    from qce_circuit.visualization.visualize_circuit.draw_components.transform_constructor import TransformConstructor
    from qce_circuit.language.intrf_declarative_circuit import InitialStateEnum, InitialStateContainer

    L = SimpleNamespace()
    L.q = q
    L.DeclarativeCircuit = q.DeclarativeCircuit
    L.RelationLink = ico.RelationLink
    L.MultiRelationLink = ico.MultiRelationLink
    L.RelationType = ico.RelationType
    L.QubitChannel = ico.QubitChannel
    L.ICircuitOperation = ico.ICircuitOperation
    L.ICircuitCompositeOperation = icc.ICircuitCompositeOperation
    L.CircuitGraphBranch = getattr(icc, "CircuitGraphBranch", None)   # only used as a fault-injection point
    L.IAcquisitionOperation = IAcquisitionOperation
    L.AcquisitionTag = AcquisitionTag
    L.GlobalDurationRegistry = rd.GlobalDurationRegistry
    L.GlobalRegistryKey = rd.GlobalRegistryKey
    L.temporary_override = rd.temporary_override_get_registry_at
    L.DurationRegistry = rd.DurationRegistry
    L.RegistryDurationStrategy = rd.RegistryDurationStrategy
    L.FixedDurationStrategy = rd.FixedDurationStrategy
    L.RepetitionRegistry = rr.RepetitionRegistry
    L.RegistryRepetitionStrategy = rr.RegistryRepetitionStrategy
    L.FixedRepetitionStrategy = rr.FixedRepetitionStrategy
    L.RegistryAcquisitionStrategy = ra.RegistryAcquisitionStrategy
    L.to_stim = to_stim
    L.to_openql = to_openql
    L.PlatformManager = PlatformManager
    L.display_circuit = display_circuit
    L.plot_circuit = display_circuit.plot_circuit
    L.VIS_DURATIONS = display_circuit.VISUALIZATION_DURATION_REGISTRY
    L.TransformConstructor = TransformConstructor
    from qce_circuit.visualization.visualize_circuit import intrf_factory_draw_components as ifdc
    L.DrawComponentFactoryManager = getattr(ifdc, "DrawComponentFactoryManager", None)
    L.InitialStateEnum = InitialStateEnum
    L.InitialStateContainer = InitialStateContainer
    L.kind_class = {}
    for name in KINDS:
        cls = getattr(co, name, None) or getattr(sco, name, None)
        if cls is None:
            raise ImportError(f"operation class {name} not found")
        L.kind_class[name] = cls
    L.class_kind = {cls: name for name, cls in L.kind_class.items()}
    # library circuit sources (object sources only; their construction is not checked here)
    from qce_circuit.library.repetition_code import circuit_constructors as rcc
    from qce_circuit.library.state_calibration import circuit_constructors as scc
    from qce_circuit.library.state_calibration import circuit_components as scomp
    L.rcc = rcc
    L.scc = scc
    L.scomp = scomp
    return L
