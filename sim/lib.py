"""
The single place that names QCoCircuits symbols. Everything else goes through `load()`.
Only public names (module-level classes/functions a user imports) plus the two taps of Appendix E.
"""
from types import SimpleNamespace

# kind name -> (arity, params)   params: d = takes duration_strategy, c = takes qubit_channel,
#                                        a = acquisition (strategy+tag), det/obs/shift = annotation args,
#                                        multi = qubit list, norel = relation not accepted by constructor
KINDS = {
    "SingleQubitOperation": (1, "d"),
    "Reset": (1, ""),
    "Wait": (1, "dc"),
    "Identity": (1, ""),
    "Hadamard": (1, ""),
    "Rx180": (1, ""),
    "Rx90": (1, ""),
    "Rxm90": (1, ""),
    "Ry180": (1, ""),
    "Ry90": (1, ""),
    "Rym90": (1, ""),
    "Rx180ef": (1, ""),
    "VirtualPhase": (1, ""),
    "VirtualPark": (1, ""),
    "Rphi90": (1, ""),
    "TwoQubitOperation": (2, "d"),
    "CPhase": (2, ""),
    "TwoQubitVirtualPhase": (2, ""),
    "DispersiveMeasure": (1, "a"),
    "Barrier": (0, "multi,norel"),
    "VirtualVacant": (1, "dc"),
    "VirtualTwoQubitVacant": (2, "dc"),
    "VirtualEmpty": (1, "dc"),
    "DetectorOperation": (1, "det"),
    "LogicalObservableOperation": (1, "obs"),
    "CoordinateShiftOperation": (0, "multi,norel,shift"),
}


def load():
    import qce_circuit as q
    from qce_circuit.structure import circuit_operations as co
    from qce_circuit.structure import intrf_circuit_operation as ico
    from qce_circuit.structure import intrf_circuit_operation_composite as icc
    from qce_circuit.structure import registry_duration as rd
    from qce_circuit.structure import registry_repetition as rr
    from qce_circuit.structure import registry_acquisition as ra
    from qce_circuit.structure.intrf_acquisition_operation import IAcquisitionOperation, AcquisitionTag
    from qce_circuit.addon_stim import circuit_operations as sco
    from qce_circuit.addon_stim.factory_manager import to_stim
    from qce_circuit.addon_openql.factory_manager import to_openql
    from qce_circuit.addon_openql.platform_manager import PlatformManager
    from qce_circuit.visualization.visualize_circuit import display_circuit
    from qce_circuit.visualization.visualize_circuit.draw_components.transform_constructor import TransformConstructor
    from qce_circuit.language.intrf_declarative_circuit import InitialStateEnum, InitialStateContainer

    L = SimpleNamespace()
    L.q = q
    L.DeclarativeCircuit = q.DeclarativeCircuit
    L.RelationLink = ico.RelationLink
    L.MultiRelationLink = getattr(ico, "MultiRelationLink", None) or type("_NoMultiRelationLink", (), {})
    L.RelationType = ico.RelationType
    L.QubitChannel = ico.QubitChannel
    L.ICircuitOperation = ico.ICircuitOperation
    L.ICircuitCompositeOperation = icc.ICircuitCompositeOperation
    L.CircuitGraphBranch = getattr(icc, "CircuitGraphBranch", None)   # only used as a fault-injection point
    L.IAcquisitionOperation = IAcquisitionOperation
    L.AcquisitionTag = AcquisitionTag
    L.GlobalDurationRegistry = rd.GlobalDurationRegistry
    L.GlobalRegistryKey = rd.GlobalRegistryKey
    L.temporary_override = rd.temporary_override_get_registry_at
    L.DurationRegistry = rd.DurationRegistry
    L.RegistryDurationStrategy = rd.RegistryDurationStrategy
    L.FixedDurationStrategy = rd.FixedDurationStrategy
    L.RepetitionRegistry = rr.RepetitionRegistry
    L.RegistryRepetitionStrategy = rr.RegistryRepetitionStrategy
    L.FixedRepetitionStrategy = rr.FixedRepetitionStrategy
    L.RegistryAcquisitionStrategy = ra.RegistryAcquisitionStrategy
    L.to_stim = to_stim
    L.to_openql = to_openql
    L.PlatformManager = PlatformManager
    L.display_circuit = display_circuit
    L.plot_circuit = display_circuit.plot_circuit
    L.VIS_DURATIONS = display_circuit.VISUALIZATION_DURATION_REGISTRY
    L.TransformConstructor = TransformConstructor
    from qce_circuit.visualization.visualize_circuit import intrf_factory_draw_components as ifdc
    L.DrawComponentFactoryManager = getattr(ifdc, "DrawComponentFactoryManager", None)
    L.InitialStateEnum = InitialStateEnum
    L.InitialStateContainer = InitialStateContainer
    L.kind_class = {}
    for name in KINDS:
        cls = getattr(co, name, None) or getattr(sco, name, None)
        if cls is None:
            raise ImportError(f"operation class {name} not found")
        L.kind_class[name] = cls
    L.class_kind = {cls: name for name, cls in L.kind_class.items()}
    # library circuit sources (object sources only; their construction is not checked here)
    from qce_circuit.library.repetition_code import circuit_constructors as rcc
    from qce_circuit.library.state_calibration import circuit_constructors as scc
    from qce_circuit.library.state_calibration import circuit_components as scomp
    L.rcc = rcc
    L.scc = scc
    L.scomp = scomp
    return L


def calibrate(L):
    """Read from the implementation what a freshly constructed operation of every kind reports: its channel pattern
    and where its default duration comes from. The properties are about what happens to operations afterwards (placement,
    listing, copies, unrolling, exports keep them); which channel or default duration a kind has is not fixed by any of
    them, so the reference model takes these tables from the library instead of hard-coding them."""
    tables = {}
    probe_a = {L.GlobalRegistryKey.READOUT: 11.0, L.GlobalRegistryKey.MICROWAVE: 13.0, L.GlobalRegistryKey.FLUX: 17.0, L.GlobalRegistryKey.RESET: 19.0}
    probe_b = {k: 2.0 * v for k, v in probe_a.items()}
    names = {"READOUT": "readout", "MICROWAVE": "microwave", "FLUX": "flux", "RESET": "reset"}
    ch = {"READOUT": "RO", "MICROWAVE": "MW", "FLUX": "FL", "ALL": "ALL"}
    holder = L.DeclarativeCircuit()
    for kind, (arity, params) in KINDS.items():
        cls = L.kind_class[kind]
        try:
            def make(chan=None):
                kw = {}
                if "multi" in params:
                    kw["qubit_indices"] = [10, 11]
                elif arity == 1:
                    kw["qubit_index"] = 10
                else:
                    kw["control_qubit_index"], kw["target_qubit_index"] = 10, 11
                if params == "a":
                    kw["acquisition_strategy"] = holder.get_acquisition_strategy()
                if chan is not None:
                    kw["qubit_channel"] = L.QubitChannel[chan]
                return cls(**kw)

            takes_chan = params == "dc"
            o1 = make("FLUX" if takes_chan else None)
            pat = []
            for c in o1.channel_identifiers:
                slot = {10: 0, 11: 1}.get(c.id)
                name = ch[c.channel.name]
                if takes_chan and name == "FL":
                    name = "PARAM"
                pat.append([slot, name])
            if takes_chan:
                o2 = make("READOUT")
                pat2 = [[{10: 0, 11: 1}.get(c.id), "PARAM" if ch[c.channel.name] == "RO" else ch[c.channel.name]] for c in o2.channel_identifiers]
                if pat2 != pat:
                    raise ValueError("channel pattern does not follow the qubit_channel parameter")
                o3 = make(None)
                default_chan = ch[o3.channel_identifiers[0].channel.name]
            else:
                default_chan = None
            o = make(None)
            with L.temporary_override(probe_a):
                da = o.duration
            with L.temporary_override(probe_b):
                db = o.duration
            if da == db:
                dur = ["fixed", float(da)]
            else:
                key = [names[k.name] for k, v in probe_a.items() if v == da and probe_b[k] == db]
                if len(key) != 1:
                    raise ValueError("default duration is not one global key")
                dur = ["global", key[0]]
            tables[kind] = {"pattern": pat, "multi": "multi" in params, "default_chan": default_chan, "dur": dur}
        except Exception as e:   # keep the documented table for this kind
            tables[kind] = {"error": f"{type(e).__name__}: {e}"}
    return tables
