"""
Canonical observations of real QCoCircuits handles, taken only through what the library exposes to
users (DESIGN.md 3.4, Appendix D). Nothing identity-like (addresses, id counters, uuid keys, repr)
enters an answer; identities are resolved to positions.
"""
from sim.world import WORLD, SimSinkError

CH = {"READOUT": "RO", "MICROWAVE": "MW", "FLUX": "FL", "ALL": "ALL"}


def _L():
    return WORLD.lib


def exc_answer(e):
    """Canonical answer for an exception: class name and the first line of its message (real OpenQL appends a
    stack trace with addresses)."""
    first = (str(e).splitlines() or [""])[0]
    return {"raises": type(e).__name__, "msg": first[:200]}


# ----------------------------------------------------------------------------- raw access
def list_ops(h):
    """The operation listing of a handle (decl: .operations; bare composite: .decomposed_operations())."""
    if h.kind == "decl":
        return list(h.obj.operations)
    return list(h.obj.decomposed_operations())


def list_comps(h):
    if h.kind == "decl":
        return list(h.obj.composite_operations)
    return list(h.obj.get_sub_composite_operations())


def struct_of(h):
    return h.obj.circuit_structure if h.kind == "decl" else h.obj


def kind_of(op):
    L = _L()
    k = L.class_kind.get(type(op))
    if k is not None:
        return k
    if isinstance(op, L.ICircuitCompositeOperation):
        return "COMP"
    return type(op).__name__


def static_label(op):
    """Configuration independent description of a leaf operation."""
    L = _L()
    kind = kind_of(op)
    ch = [[c.id, CH[c.channel.name]] for c in op.channel_identifiers]
    lab = [kind, ch]
    if isinstance(op, L.IAcquisitionOperation):
        lab.append(["tag", op.acquisition_identifier.tag])
    if kind == "DetectorOperation":
        lab.append(["det", op.last_acquisition_index, op.main_target, op.secondary_target,
                    op.reference_offset, op.secondary_offset])
    elif kind == "LogicalObservableOperation":
        lab.append(["obs", op.last_acquisition_index, op.main_target])
    elif kind == "CoordinateShiftOperation":
        lab.append(["shift", op.time_shift, op.space_shift])
    return lab


def _index_by_id(objs):
    out = {}
    for i, o in enumerate(objs):
        out.setdefault(id(o), i)
    return out


def resolve_ref(op, op_idx, comp_idx):
    link = op.relation_link
    ref = link.reference_node
    rt = link.relation_type.name
    if ref is None:
        return rt, None
    i = op_idx.get(id(ref))
    if i is not None:
        return rt, ["op", i]
    j = comp_idx.get(id(ref))
    if j is not None:
        return rt, ["comp", j]
    return rt, "ext"


# ----------------------------------------------------------------------------- observers
def obs_list(h, ex=None):
    ops = list_ops(h)
    comps = list_comps(h)
    oi, ci = _index_by_id(ops), _index_by_id(comps)
    out = []
    for o in ops:
        rt, ref = resolve_ref(o, oi, ci)
        e = {"l": static_label(o), "rt": rt, "ref": ref}
        if isinstance(o.relation_link, _L().MultiRelationLink):
            e["multi"] = True
        if ex is not None:
            ent = ex.entry_of(o)
            if ent is not None:
                e["ent"] = ent
        out.append(e)
    dup = len(oi) != len(ops)
    return {"ops": out, "dup": dup}


def obs_list_twice(h, ex=None):
    a = list_ops(h)
    b = list_ops(h)
    same = len(a) == len(b) and all(x is y for x, y in zip(a, b))
    r = obs_list(h, ex)
    r["stable"] = same
    return r


def obs_times(h, ex=None):
    ops = list_ops(h)
    out = []
    for o in ops:
        d = o.duration
        s = o.start_time
        e = o.end_time
        out.append([kind_of(o), s, e, d])
    st = struct_of(h)
    return {"t": out, "dur": h.obj.duration, "start": h.obj.start_time}


def obs_duration(h, ex=None):
    return {"dur": h.obj.duration}


def obs_composites(h, ex=None):
    ops = list_ops(h)
    comps = list_comps(h)
    oi, ci = _index_by_id(ops), _index_by_id(comps)
    out = []
    descs = []
    for k in comps:
        descs.append({id(x) for x in k.get_sub_composite_operations()})
    for j, k in enumerate(comps):
        leaves = [oi.get(id(x), -1) for x in k.decomposed_operations()]
        anc = [a for a in range(len(comps)) if a != j and id(k) in descs[a]]
        parent = min(anc, key=lambda a: len(descs[a])) if anc else None
        rt, ref = resolve_ref(k, oi, ci)
        rec = {"reps": k.nr_of_repetitions, "leaves": leaves, "parent": parent, "depth": len(anc),
               "rt": rt, "ref": ref}
        if isinstance(k.relation_link, _L().MultiRelationLink):
            rec["multi"] = True
        if ex is not None:
            ent = ex.entry_of(k)
            if ent is not None:
                rec["ent"] = ent
        out.append(rec)
    return {"comps": out}


def obs_comp_times(h, ex=None):
    comps = list_comps(h)
    return {"ct": [[k.start_time, k.end_time, k.duration] for k in comps]}


def obs_channels(h, ex=None):
    if h.kind == "decl":
        chans = h.obj.occupied_qubit_channels
    else:
        chans = h.obj.channel_identifiers
    return {"ch": [[c.id, CH[c.channel.name]] for c in chans]}


def obs_acq(h, ex=None):
    L = _L()
    ops = list_ops(h)
    meas = []
    for i, o in enumerate(ops):
        if isinstance(o, L.IAcquisitionOperation):
            ident = o.acquisition_identifier
            meas.append([i, ident.qubit_index, ident.tag, o.acquisition_index, o.circuit_level_acquisition_index])
    out = {"m": meas}
    if h.kind == "decl":
        byq, bytag = {}, {}
        for q in sorted({m[1] for m in meas}):
            byq[str(q)] = [int(x) for x in h.obj.get_acquisition_indices(q)]
        for q, tag in sorted({(m[1], m[2]) for m in meas}):
            bytag[f"{q}|{tag}"] = [int(x) for x in h.obj.get_acquisition_indices(L.AcquisitionTag(qubit_index=q, tag=tag))]
        out["byq"] = byq
        out["bytag"] = bytag
    return out


def obs_last(h, ex=None):
    if h.kind != "decl":
        return {"last": None}
    try:
        o = h.obj.get_last_entry()
    except Exception as e:  # empty circuit raises by documentation
        return {"last": ["raises", type(e).__name__]}
    ent = ex.entry_of(o) if ex is not None else None
    return {"last": ent, "k": kind_of(o)}


def normalise_stim(circ):
    """stim.Circuit -> list of [gate, targets, args]; fused targets split; REPEAT kept as nested block."""
    stim = WORLD.stim
    out = []
    for inst in circ:
        if isinstance(inst, stim.CircuitRepeatBlock):
            out.append(["REPEAT", inst.repeat_count, normalise_stim(inst.body_copy())])
            continue
        name = inst.name
        args = [float(a) for a in inst.gate_args_copy()]
        tg = inst.targets_copy()
        vals = []
        for t in tg:
            if t.is_measurement_record_target:
                vals.append(["rec", t.value])
            else:
                vals.append(t.value)
        if name in ("DETECTOR", "OBSERVABLE_INCLUDE", "SHIFT_COORDS", "TICK") or not vals:
            out.append([name, vals, args])
        elif name in ("CZ", "CX", "CY", "SWAP", "ISWAP"):
            for i in range(0, len(vals), 2):
                out.append([name, vals[i:i + 2], args])
        else:
            for v in vals:
                out.append([name, [v], args])
    return out


def expand_stim(norm):
    out = []
    for it in norm:
        if it[0] == "REPEAT":
            body = expand_stim(it[2])
            for _ in range(it[1]):
                out.extend(body)
        else:
            out.append(it)
    return out


def obs_stim(h, ex=None):
    c = _L().to_stim(h.obj)
    n = normalise_stim(c)
    return {"stim": n, "nm": c.num_measurements}


def obs_openql(h, ex=None):
    L = _L()
    if WORLD.real_openql:
        from sim import realql
        saved = realql._silence()
        try:
            p = L.to_openql(h.obj)
        finally:
            realql._restore(saved)
        return realql.describe(p)
    p = L.to_openql(h.obj)
    # the same circuit always yields the same program and kernel names: export once more and compare
    p2 = L.to_openql(h.obj)
    return {"prog": p.name, "items": p.items, "again_same": [p2.name == p.name, p2.items == p.items]}


def obs_repr(h, ex=None):
    repr(struct_of(h))
    for o in list_ops(h)[:3]:
        repr(o)
    return {}


def obs_copyobs(h, ex=None):
    """Take a copy and look at it (the original must not notice)."""
    from sim.driver import Handle
    cp = struct_of(h).copy()
    hh = Handle("~copy", "comp", cp, [])
    return {"copy": full(hh, None, light=True)}


def obs_plot(h, ex=None, order=None, labels=None, compact=True):
    if h.kind != "decl":
        return {"plot": None}
    W = WORLD
    W.taps["descriptions"].clear()
    W.taps["pivots"].clear()
    W.taps["components"].clear()
    ops_before = None
    try:
        fig, ax = W.lib.plot_circuit(h.obj, channel_order=order, channel_map=labels, compact_visualization=compact)
    except SimSinkError:
        raise
    except Exception as e:
        W.plt.close("all")
        return {"plot": ["raises", type(e).__name__]}
    size = [float(x) for x in fig.get_size_inches()]
    W.plt.close(fig)
    d = W.taps["descriptions"][-1] if W.taps["descriptions"] else None
    out = {"plot": "ok", "size": size}
    if d is not None:
        out["rows"] = list(d.channel_indices)
        out["labels"] = {str(k): str(v) for k, v in d.channel_label_map.items()}
        out["width"] = d.channel_width
        oi = _index_by_id(d.operations)
        ci = _index_by_id(d.composite_operations)
        piv = []
        for (tc, qid, x, y) in W.taps["pivots"]:
            if id(tc) in oi:
                piv.append(["op", oi[id(tc)], qid, x, y])
            elif id(tc) in ci:
                piv.append(["comp", ci[id(tc)], qid, x, y])
            else:
                piv.append(["?", -1, qid, x, y])
        out["piv"] = piv
        out["blocks"] = [[oi.get(id(o), -1), kind_of(o), x, y, wd, ht] for (o, x, y, wd, ht) in W.taps["components"]]
        out["n_ops"] = len(d.operations)
        out["op_kinds"] = [kind_of(o) for o in d.operations]
        out["spacing"] = d.channel_spacing
    W.taps["descriptions"].clear()
    W.taps["pivots"].clear()
    W.taps["components"].clear()
    return out


OBSERVERS = {
    "LIST": obs_list,
    "LIST_TWICE": obs_list_twice,
    "TIMES": obs_times,
    "DURATION": obs_duration,
    "COMPOSITES": obs_composites,
    "COMP_TIMES": obs_comp_times,
    "CHANNELS": obs_channels,
    "ACQ": obs_acq,
    "LAST": obs_last,
    "STIM": obs_stim,
    "OPENQL": obs_openql,
    "REPR": obs_repr,
    "COPYOBS": obs_copyobs,
    "PLOT": obs_plot,
}

FULL_ORDER = ["LIST_TWICE", "COMPOSITES", "TIMES", "COMP_TIMES", "CHANNELS", "ACQ", "LAST", "STIM", "OPENQL"]
FULL_ORDER_ALT = ["DURATION", "COMP_TIMES", "TIMES", "STIM", "ACQ", "LIST_TWICE", "COMPOSITES", "CHANNELS", "LAST", "OPENQL"]


def full(h, ex=None, light=False, alt=False, skip=()):
    """The full canonical observation of a handle in one fixed observer order."""
    out = {}
    order = FULL_ORDER_ALT if alt else FULL_ORDER
    for name in order:
        if name in skip:
            continue
        if light and name in ("LAST", "OPENQL", "CHANNELS"):
            continue
        if h.kind != "decl" and name == "LAST":
            continue
        try:
            out[name] = OBSERVERS[name](h, ex)
        except SimSinkError:
            raise
        except Exception as e:
            out[name] = exc_answer(e)
    return out
