"""
Oracles (DESIGN.md section 6). Every oracle reads only the fields it is about and returns findings
    {'props': [ids the finding bears on], 'oracle': name, 'detail': ...}
A check for property X reports the findings whose 'props' contain X.
"""
from sim import canon
from sim.observe import expand_stim

STIM_TABLE = {
    "Reset": "R", "Hadamard": "H", "Identity": "I", "CPhase": "CZ", "DispersiveMeasure": "M",
    "Rx180": "X", "Rx90": "SQRT_X", "Rxm90": "SQRT_X_DAG", "Ry180": "Y", "Ry90": "SQRT_Y", "Rym90": "SQRT_Y_DAG",
    "Barrier": "TICK",
}
OPENQL_TABLE = {
    "Reset": "prepz", "Hadamard": "h", "Identity": "i", "DispersiveMeasure": "measure",
    "Rx180": "x180", "Rx90": "x90", "Rxm90": "mx90", "Ry180": "y180", "Ry90": "y90", "Rym90": "my90",
}


def F(props, oracle, **detail):
    return {"props": list(props), "oracle": oracle, "detail": detail}


def qubits_of(label):
    out = []
    for q, _ in label[1]:
        if q not in out:
            out.append(q)
    return out


def extra_of(label, key):
    for e in label[2:]:
        if e and e[0] == key:
            return e
    return None


# --------------------------------------------------------------------------- helpers on a full observation
def parts(full):
    lt = full.get("LIST_TWICE") or full.get("LIST") or {}
    ops = lt.get("ops")
    comps = (full.get("COMPOSITES") or {}).get("comps")
    tt = full.get("TIMES") or {}
    t = tt.get("t")
    ct = (full.get("COMP_TIMES") or {}).get("ct")
    return ops, comps, t, ct, tt.get("dur"), tt.get("start")


def raised(full):
    out = []
    for k, v in full.items():
        if isinstance(v, dict) and "raises" in v:
            out.append((k, v["raises"], v.get("msg")))
    return out


# --------------------------------------------------------------------------- C02 local
def c02_local(full, n_leaf_entries=None, handle=None):
    out = []
    lt = full.get("LIST_TWICE") or {}
    ops, comps, t, ct, dur, start = parts(full)
    if ops is None:
        return out
    if lt.get("dup"):
        out.append(F(["C02"], "listing-duplicate-object"))
    if lt.get("stable") is False:
        out.append(F(["C02", "C03"], "listing-not-stable"))
    leaves_of = {j: set(k["leaves"]) for j, k in enumerate(comps or [])}
    for i, o in enumerate(ops):
        ref = o.get("ref")
        if isinstance(ref, list):
            if ref[0] == "op" and not ref[1] < i:
                out.append(F(["C02"], "listing-not-causal", op=i, ref=ref))
            if ref[0] == "comp" and comps is not None and any(x >= i for x in leaves_of.get(ref[1], ())):
                out.append(F(["C02"], "listing-not-causal", op=i, ref=ref))
    if n_leaf_entries is not None and handle is not None:
        seen = {}
        for o in ops:
            e = o.get("ent")
            if e is not None and e[0] == handle:
                seen[e[1]] = seen.get(e[1], 0) + 1
        missing = [k for k in n_leaf_entries if seen.get(k, 0) != 1]
        if missing:
            out.append(F(["C02"], "added-leaf-not-listed-exactly-once", entries=missing))
    return out


# --------------------------------------------------------------------------- C01 local
def c01_local(full):
    out = []
    ops, comps, t, ct, dur, start = parts(full)
    if ops is None or t is None or comps is None or ct is None:
        return out
    if len(t) != len(ops) or len(ct) != len(comps):
        return out
    blk = canon.op_block(ops, comps)

    def block_start(p):
        return start if p is None else ct[p][0]

    def check(kind, idx, rec, s, e, d, block):
        if e != s + d:
            out.append(F(["C01"], "end!=start+duration", what=kind, index=idx, start=s, end=e, dur=d))
        ref = rec.get("ref")
        rt = rec["rt"]
        internal = False
        if isinstance(ref, list):
            rs, re_ = (t[ref[1]][1], t[ref[1]][2]) if ref[0] == "op" else (ct[ref[1]][0], ct[ref[1]][1])
            want = {"FOLLOWED_BY": re_, "JOINED_START": rs, "JOINED_END": re_ - d}.get(rt)
            if want is not None and s != want:
                out.append(F(["C01"], "relation-equation", what=kind, index=idx, rt=rt, ref=ref, start=s, want=want,
                             multi=bool(rec.get("multi"))))
            tgt_block = blk[ref[1]] if ref[0] == "op" else comps[ref[1]]["parent"]
            # a reference to a member of the same block, or (after a rebuild re-linked it) to an operation nested
            # somewhere below the same block, is the operation's own relation - not one inherited from outside
            b = tgt_block
            hops = 0
            while b is not None and b != block and hops < 1000:
                b = comps[b]["parent"]
                hops += 1
            internal = b == block
        if not internal and ref != "ext":
            bs = block_start(block)
            if bs is not None and s != bs:
                out.append(F(["C01"], "unrelated-member-not-at-block-start", what=kind, index=idx, start=s, block=block,
                             block_start=bs))

    for i, o in enumerate(ops):
        check("op", i, o, t[i][1], t[i][2], t[i][3], blk[i])
    for j, k in enumerate(comps):
        check("comp", j, k, ct[j][0], ct[j][1], ct[j][2], k["parent"])
    return out


# --------------------------------------------------------------------------- C04 local
def c04_local(full):
    out = []
    ops, comps, t, ct, dur, start = parts(full)
    if ops is None or t is None or len(t) != len(ops):
        return out

    def span(idxs):
        idxs = [i for i in idxs if 0 <= i < len(t)]
        if not idxs:
            return 0.0
        return max(t[i][2] for i in idxs) - min(t[i][1] for i in idxs)

    if dur is not None:
        want = span(range(len(ops)))
        if dur != want:
            out.append(F(["C04"], "circuit-duration!=span", got=dur, want=want))
    if comps is not None and ct is not None and len(ct) == len(comps):
        for j, k in enumerate(comps):
            want = span(k["leaves"])
            if ct[j][2] != want:
                out.append(F(["C04"], "subcircuit-duration!=span", comp=j, got=ct[j][2], want=want))
        for i, o in enumerate(ops):
            ref = o.get("ref")
            if o["rt"] == "FOLLOWED_BY" and isinstance(ref, list) and ref[0] == "comp":
                lv = [x for x in comps[ref[1]]["leaves"] if 0 <= x < len(t)]
                if not lv:
                    continue
                if min(t[x][1] for x in lv) >= ct[ref[1]][0]:
                    latest = max(t[x][2] for x in lv)
                    if t[i][1] < latest:
                        out.append(F(["C04"], "follower-starts-before-block-ended", op=i, comp=ref[1], start=t[i][1], latest_end=latest))
    return out


# --------------------------------------------------------------------------- conformance with the model
def conformance(full, view, flags):
    """flags: set of {'copy','unroll','flatten','lib'} describing how the handle came about;
    view: Model.view(name)."""
    out = []
    ops, comps, t, ct, dur, start = parts(full)
    if ops is None or comps is None:
        return out
    extra = []
    if "copy" in flags:
        extra.append("C05")
    if "unroll" in flags:
        extra.append("C06")
    if "flatten" in flags:
        extra.append("C11")
    rel_known = view.get("rel_known", True)
    # content
    got_ms = canon.leaf_multiset(ops)
    want_ms = canon.leaf_multiset(view["ops"])
    if got_ms != want_ms:
        out.append(F(["C02"] + extra, "content-differs-from-model", got=_ms_diff(got_ms, want_ms)))
        return out
    f_got = canon.build(ops, comps, relations=False)
    f_want = canon.build(view["ops"], view["comps"], relations=False)
    if f_got != f_want:
        out.append(F(["C02"] + extra, "nesting-differs-from-model", got=canon.digest(f_got), want=canon.digest(f_want)))
        return out
    if rel_known:
        f_got = canon.build(ops, comps)
        f_want = canon.build(view["ops"], view["comps"])
        if f_got != f_want:
            out.append(F(["C01"] + extra, "relations-differ-from-model", got=_short(f_got), want=_short(f_want)))
            return out
    if view.get("t") is not None and t is not None and ct is not None and len(t) == len(ops) and len(ct) == len(comps):
        got_d = canon.leaf_multiset(ops, t)
        want_d = canon.leaf_multiset(view["ops"], view["t"])
        if got_d != want_d:
            out.append(F(["C02", "C03"] + extra, "durations-differ-from-model", got=_ms_diff(got_d, want_d)))
            return out
        if rel_known:
            f_got = canon.build(ops, comps, t=t, ct=ct)
            f_want = canon.build(view["ops"], view["comps"], t=view["t"], ct=view["ct"])
            if f_got != f_want:
                out.append(F(["C01", "C04"] + extra, "schedule-differs-from-model", got=_times(ops, t), want=_times(view["ops"], view["t"])))
            if dur is not None and view.get("dur") is not None and dur != view["dur"]:
                out.append(F(["C04"], "circuit-duration-differs-from-model", got=dur, want=view["dur"]))
    return out


def _ms_diff(a, b):
    from collections import Counter
    ca, cb = Counter(map(repr, a)), Counter(map(repr, b))
    return {"extra": list((ca - cb).elements())[:6], "missing": list((cb - ca).elements())[:6]}


def _short(x):
    s = repr(x)
    return s if len(s) < 1500 else s[:1500] + "..."


def _times(ops, t):
    return sorted([[o["l"][0], o["l"][1], x[1], x[2]] for o, x in zip(ops, t)], key=repr)[:40]


# --------------------------------------------------------------------------- C07
def c07(full, in_scope, applied):
    out = []
    acq = full.get("ACQ")
    if not acq or "m" not in acq:
        return out
    meas = acq["m"]
    if not (in_scope and applied):
        return out
    per_q = {}
    for n, (i, q, tag, qi, ci) in enumerate(meas):
        want_q = per_q.get(q, 0)
        per_q[q] = want_q + 1
        if ci != n or qi != want_q:
            out.append(F(["C07"], "acquisition-index", listing_pos=i, qubit=q, tag=tag, got=[qi, ci], want=[want_q, n]))
    if "byq" in acq:
        for q in sorted({m[1] for m in meas}):
            want = [m[3] for m in meas if m[1] == q]
            if acq["byq"].get(str(q)) != want:
                out.append(F(["C07"], "indices-by-qubit", qubit=q, got=acq["byq"].get(str(q)), want=want))
            if want != list(range(len(want))) and not out:
                out.append(F(["C07"], "qubit-indices-not-0..n-1", qubit=q, got=want))
        tags = {}
        for m in meas:
            tags.setdefault((m[1], m[2]), []).append(m[3])
        for (q, tag), want in tags.items():
            if acq["bytag"].get(f"{q}|{tag}") != want:
                out.append(F(["C07"], "indices-by-tag", qubit=q, tag=tag, got=acq["bytag"].get(f"{q}|{tag}"), want=want))
    st = full.get("STIM")
    if st and "stim" in st:
        flat = expand_stim(st["stim"])
        mt = [x[1][0] for x in flat if x[0] == "M"]
        want = [m[1] for m in meas]
        if mt != want:
            out.append(F(["C07", "C08"], "stim-measurement-order", got=mt[:30], want=want[:30]))
    return out


def overlap_free(full):
    """No two operations of non-zero length that share a qubit channel overlap in time (read off the observation)."""
    ops, comps, t, ct, dur, start = parts(full)
    if ops is None or t is None or len(t) != len(ops):
        return False
    items = []
    for o, x in zip(ops, t):
        if x[3] > 0:
            items.append((x[1], x[2], o["l"][1]))
    items.sort(key=lambda z: z[0])
    for a in range(len(items)):
        for b in range(a + 1, len(items)):
            if items[b][0] >= items[a][1]:
                break
            if any(p[0] == q[0] and (p[1] == q[1] or p[1] == "ALL" or q[1] == "ALL") for p in items[a][2] for q in items[b][2]):
                return False
    return True


def c07_monotone(full, overlap_free):
    out = []
    acq = full.get("ACQ")
    t = (full.get("TIMES") or {}).get("t")
    if not acq or "m" not in acq or t is None or not overlap_free:
        return out
    last = {}
    for (i, q, tag, qi, ci) in acq["m"]:
        if i >= len(t):
            continue
        s = t[i][1]
        if q in last and s < last[q]:
            out.append(F(["C07"], "index-not-monotone-in-start-time", qubit=q, listing_pos=i, start=s, previous=last[q]))
        last[q] = s
    return out


# --------------------------------------------------------------------------- C08
def detector_instruction(label):
    kind = label[0]
    q = label[1][0][0]
    if kind == "DetectorOperation":
        _, last, main, sec, ro, so = extra_of(label, "det")
        if main is not None and sec is None and ro is None:
            m = main - (last + 1)
            return ["DETECTOR", [["rec", m]], [float(q), 0.0]]
        if main is not None and sec is None and ro is not None:
            m = main - (last + 1)
            return ["DETECTOR", [["rec", m], ["rec", m - ro]], [float(q), 0.0]]
        if main is not None and sec is not None and ro is None:
            return ["DETECTOR", [["rec", main - (last + 1)], ["rec", sec - (last + 1)]], [float(q), 0.0]]
        if main is not None and sec is not None and ro is not None and so is None:
            return ["DETECTOR", [["rec", main - (last + 1)], ["rec", sec - (last + 1)], ["rec", -ro]], [float(q), 0.0]]
        if main is not None and sec is not None and ro is not None and so is not None:
            return ["DETECTOR", [["rec", main - (last + 1)], ["rec", sec - (last + 1)], ["rec", -ro], ["rec", -ro - so]], [float(q), 0.0]]
        return ["DETECTOR", [], []]
    if kind == "LogicalObservableOperation":
        _, last, main = extra_of(label, "obs")
        if last is not None and main is not None:
            return ["OBSERVABLE_INCLUDE", [["rec", main - (last + 1)]], [0.0]]
        return ["OBSERVABLE_INCLUDE", [], []]
    if kind == "CoordinateShiftOperation":
        _, ts, ss = extra_of(label, "shift")
        return ["SHIFT_COORDS", [], [float(ss), float(ts)]]
    return None


def stim_of_label(label):
    kind = label[0]
    if kind in STIM_TABLE:
        g = STIM_TABLE[kind]
        if g == "TICK":
            return [["TICK", [], []]]
        qs = qubits_of(label)
        if g == "CZ":
            return [["CZ", qs, []]]
        return [[g, [q], []] for q in qs]
    d = detector_instruction(label)
    return [d] if d is not None else []


def walk_listing(ops, comps, leaf_fn, open_fn=None):
    """Expected in-order expansion of a listing: sub-circuits expanded in place, repeated `reps` times."""
    n = len(ops)
    # chain of enclosing composites per op (outermost first)
    by_depth = sorted(range(len(comps)), key=lambda j: comps[j].get("depth", 0))
    chain = [[] for _ in range(n)]
    for j in by_depth:
        for i in comps[j]["leaves"]:
            if 0 <= i < n:
                chain[i].append(j)

    def emit(lo, hi, level):
        out = []
        i = lo
        while i < hi:
            if len(chain[i]) > level:
                j = chain[i][level]
                k = i
                while k < hi and len(chain[k]) > level and chain[k][level] == j:
                    k += 1
                body = emit(i, k, level + 1)
                for _ in range(comps[j]["reps"]):
                    out.extend(body)
                i = k
            else:
                out.extend(leaf_fn(ops[i]["l"]))
                i += 1
        return out

    return emit(0, n, 0)


def c08(full):
    out = []
    st = full.get("STIM")
    ops, comps, t, ct, dur, start = parts(full)
    if not st or ops is None or comps is None:
        return out
    if "raises" in st:
        out.append(F(["C08"], "to_stim-raises", exc=st["raises"], msg=st.get("msg")))
        return out
    got = expand_stim(st["stim"])
    want = walk_listing(ops, comps, stim_of_label)
    if got != want:
        out.append(F(["C08"], "stim-not-image-of-listing", got=got[:40], want=want[:40], n_got=len(got), n_want=len(want)))
    n_m = sum(1 for x in want if x[0] == "M")
    if st.get("nm") is not None and st["nm"] != n_m:
        out.append(F(["C08"], "stim-measurement-count", got=st["nm"], want=n_m))
    return out


def c08_vs_model(full, view):
    """The exported program is the image of the circuit *as built*: same multiset of instructions as the
    translation of the reference model's content (the order is checked against the listing by c08)."""
    from collections import Counter
    st = full.get("STIM")
    if not st or "stim" not in st:
        return []
    got = Counter(map(repr, expand_stim(st["stim"])))
    want = Counter(map(repr, walk_listing(view["ops"], view["comps"], stim_of_label)))
    if got != want:
        return [F(["C08"], "stim-differs-from-model-translation", extra=list((got - want).elements())[:6], missing=list((want - got).elements())[:6])]
    return []


def c15_vs_model(full, view):
    from collections import Counter
    oq = full.get("OPENQL")
    if not oq or "items" not in oq or oq.get("wait_unit") == "cycles":
        return []
    got = Counter()
    for name, calls in _flat_items(oq["items"]):
        for c in calls:
            got[repr(c if c[0] != "wait" else c[:2])] += 1
    want = Counter(repr(c if c[0] != "wait" else c[:2]) for c in walk_listing(view["ops"], view["comps"], openql_of_label))
    if got != want:
        return [F(["C15"], "openql-differs-from-model-translation", extra=list((got - want).elements())[:6], missing=list((want - got).elements())[:6])]
    return []


# --------------------------------------------------------------------------- C15
def openql_of_label(label, durations=None):
    kind = label[0]
    qs = qubits_of(label)
    if kind in OPENQL_TABLE:
        return [["gate", OPENQL_TABLE[kind], qs]]
    if kind == "Barrier":
        return [["barrier", qs]]
    if kind == "CPhase":
        return [["gate", "cz", qs], ["barrier", qs], ["gate", "update_ph", [qs[0]]], ["gate", "update_ph", [qs[1]]]]
    if kind == "Wait":
        return [["wait", qs, None]]
    return []


def c15(full):
    out = []
    oq = full.get("OPENQL")
    ops, comps, t, ct, dur, start = parts(full)
    if not oq or ops is None or comps is None:
        return out
    if "raises" in oq:
        diag = None
        if oq["raises"] == "RuntimeError" and "duplicate kernel name" in (oq.get("msg") or "") and _predict_duplicate_kernel_names(ops, comps):
            diag = "D5b"
        out.append(F(["C15"], "to_openql-raises", exc=oq["raises"], msg=oq.get("msg"), diag=diag))
        return out
    if oq.get("again_same") is not None and oq["again_same"] != [True, True]:
        out.append(F(["C15"], "second-export-differs", same_program_name=oq["again_same"][0], same_kernels=oq["again_same"][1]))
    got = []
    for name, calls in _flat_items(oq["items"]):
        got.extend(calls)
    durs = iter([])
    idx = {"i": 0}
    tl = t

    def leaf(label):
        return openql_of_label(label)

    # waits carry the operation's integer duration: resolve per occurrence from the listing times
    want = []
    n = len(ops)

    def leaf_i(i):
        calls = openql_of_label(ops[i]["l"])
        if calls and calls[0][0] == "wait":
            d = int(tl[i][3]) if tl is not None and i < len(tl) else None
            if d is not None and oq.get("wait_unit") == "cycles":
                d = -(-d // 20)     # real OpenQL reports waits in 20 ns cycles ...
                if d == 0:
                    return [["barrier", calls[0][1]]]   # ... and writes a zero wait as a barrier
            return [["wait", calls[0][1], d]]
        return calls

    want = _walk_indices(ops, comps, leaf_i)
    if oq.get("wait_unit") == "cycles":
        # the cQASM writer of real OpenQL spells some gate names with underscores (prepz -> prep_z)
        def norm(seq):
            return [[c[0], c[1].replace("_", ""), c[2]] if c[0] == "gate" else c for c in seq]
        got, want = norm(got), norm(want)
    if got != want:
        nf = _walk_nested_first(ops, comps, leaf_i)
        if oq.get("wait_unit") == "cycles":
            nf = norm(nf)
        diag = "D5a" if got == nf else None
        out.append(F(["C15"], "openql-not-image-of-listing", got=got[:40], want=want[:40], n_got=len(got), n_want=len(want), diag=diag))
    return out


def _chains(ops, comps):
    n = len(ops)
    by_depth = sorted(range(len(comps)), key=lambda j: comps[j].get("depth", 0))
    chain = [[] for _ in range(n)]
    for j in by_depth:
        for i in comps[j]["leaves"]:
            if 0 <= i < n:
                chain[i].append(j)
    return chain


def _walk_nested_first(ops, comps, leaf_i):
    """What an exporter emits that adds every nested sub-program while walking and its own kernel last
    (known finding D5a): per block, first the nested blocks (in order, x count), then the block's own gates."""
    chain = _chains(ops, comps)
    n = len(ops)

    def emit(lo, hi, level):
        nested, own = [], []
        i = lo
        while i < hi:
            if len(chain[i]) > level:
                j = chain[i][level]
                k = i
                while k < hi and len(chain[k]) > level and chain[k][level] == j:
                    k += 1
                body = emit(i, k, level + 1)
                for _ in range(comps[j]["reps"]):
                    nested.extend(body)
                i = k
            else:
                own.extend(leaf_i(i))
                i += 1
        return nested + own

    return emit(0, n, 0)


def _predict_duplicate_kernel_names(ops, comps):
    """Kernel names are derived from the class names of a block's operations: two blocks with the same
    sequence, or one block emitted more than once, give the same name twice in one program (known finding D5b)."""
    seqs = [tuple(o["l"][0] for o in ops)]
    for k in comps:
        if k["reps"] >= 2:
            return True
        seqs.append(tuple(ops[i]["l"][0] for i in k["leaves"] if 0 <= i < len(ops)))
    return len(set(seqs)) != len(seqs)


def _flat_items(items):
    res = []
    for it in items:
        if it[0] == "kernel":
            res.append([it[1], it[2]])
        else:
            res.extend(_flat_items(it[2]))
    return res


def _walk_indices(ops, comps, leaf_i):
    n = len(ops)
    by_depth = sorted(range(len(comps)), key=lambda j: comps[j].get("depth", 0))
    chain = [[] for _ in range(n)]
    for j in by_depth:
        for i in comps[j]["leaves"]:
            if 0 <= i < n:
                chain[i].append(j)

    def emit(lo, hi, level):
        out = []
        i = lo
        while i < hi:
            if len(chain[i]) > level:
                j = chain[i][level]
                k = i
                while k < hi and len(chain[k]) > level and chain[k][level] == j:
                    k += 1
                body = emit(i, k, level + 1)
                for _ in range(comps[j]["reps"]):
                    out.extend(body)
                i = k
            else:
                out.extend(leaf_i(i))
                i += 1
        return out

    return emit(0, n, 0)


# --------------------------------------------------------------------------- C18 positions
def c18_positions(plot, st, full, model_times, margin, valid_channels):
    """plot: answer of the PLOT observer; model_times: per listed op (start, end) under the drawing's durations
    or None when the model cannot predict; full: observation taken under the same durations."""
    out = []
    order = st.get("order") or []
    unknown = [q for q in order if q not in valid_channels]
    if plot.get("plot") != "ok":
        if isinstance(plot.get("plot"), list) and plot["plot"][0] == "raises":
            if not unknown:
                out.append(F(["C18"], "drawing-raises-on-valid-input", exc=plot["plot"][1]))
        return out
    if unknown:
        out.append(F(["C18"], "unknown-channel-not-rejected", order=order, rows=plot.get("rows")))
        return out
    rows = plot.get("rows")
    if rows is None:
        return out
    want_rows = list(order) + [q for q in valid_channels if q not in order]
    if rows != want_rows:
        out.append(F(["C18"], "row-order", got=rows, want=want_rows))
    labels = st.get("labels") or {}
    for r, q in enumerate(rows):
        want = str(labels.get(str(q), q))
        if plot["labels"].get(str(r)) != want:
            out.append(F(["C18"], "row-label", row=r, got=plot["labels"].get(str(r)), want=want))
    if model_times is not None:
        latest = max([1.0] + [e for (_, e) in model_times])
        if margin is not None and plot["width"] != latest + margin:
            out.append(F(["C18"], "figure-width", got=plot["width"], want=latest + margin))
        if plot.get("size") and abs(plot["size"][0] - plot["width"]) > 1e-9:
            out.append(F(["C18"], "figure-size!=width", got=plot["size"], want=plot["width"]))
        if plot.get("size") and rows and abs(plot["size"][1] - plot.get("spacing", 1.2) * len(rows)) > 1e-9:
            out.append(F(["C18"], "figure-height!=rows", got=plot["size"], rows=len(rows)))
        sp = plot.get("spacing", 1.2)
        for what, i, qid, x, y in plot["piv"]:
            if what != "op" or i >= len(model_times):
                continue
            s, e = model_times[i]
            if not (s <= x <= e):
                out.append(F(["C18"], "operation-x-position", op=i, x=x, start=s, end=e))
            if qid in rows:
                wy = -1 * rows.index(qid) * sp
                if abs(y - wy) > 1e-9:
                    out.append(F(["C18"], "operation-row", op=i, qubit=qid, y=y, want=wy))
        # individually drawn blocks: left edge exactly at the start time, single-qubit blocks on the row of their qubit
        # (the property says nothing about widths: rotation icons have a fixed width)
        ops_l = (full.get("LIST_TWICE") or {}).get("ops") or []
        t_l = (full.get("TIMES") or {}).get("t") or []
        for i, kind, x, y, wd, ht in plot.get("blocks", []):
            if not (0 <= i < len(model_times)) or i >= len(ops_l) or i >= len(t_l):
                continue
            s, e = model_times[i]
            if x != s:
                out.append(F(["C18"], "block-left-edge!=start", op=i, kind=kind, x=x, start=s))
            qs = [q for q, _ in ops_l[i]["l"][1] if q in rows]
            if kind == "CoordinateShiftOperation":
                continue   # an annotation without a drawing of its own (default block)
            if kind == "Barrier":
                # anchored at the lower edge: the block must reach the row of every one of its qubits
                for q in qs:
                    ry = -1 * rows.index(q) * sp
                    if not (y - 1e-9 <= ry <= y + ht + 1e-9):
                        out.append(F(["C18"], "barrier-does-not-reach-row", op=i, qubit=q, row_y=ry, span=[y, y + ht]))
                        break
            elif len(qs) == 1:
                want_rows = [-1 * rows.index(q) * sp for q in qs]
                if not any(abs(y - wr) < 1e-9 for wr in want_rows):
                    out.append(F(["C18"], "block-row", op=i, kind=kind, y=y, want=want_rows))
    return out


# --------------------------------------------------------------------------- C03 comparison
def diff_answers(a, b, path=""):
    """First difference between two canonical answers (None if equal)."""
    if type(a) != type(b) and not (isinstance(a, (int, float)) and isinstance(b, (int, float))):
        return {"path": path, "a": _s(a), "b": _s(b)}
    if isinstance(a, dict):
        for k in sorted(set(a) | set(b)):
            if k not in a or k not in b:
                return {"path": f"{path}/{k}", "a": _s(a.get(k)), "b": _s(b.get(k))}
            d = diff_answers(a[k], b[k], f"{path}/{k}")
            if d:
                return d
        return None
    if isinstance(a, list):
        if len(a) != len(b):
            return {"path": path + "/len", "a": len(a), "b": len(b)}
        for i, (x, y) in enumerate(zip(a, b)):
            d = diff_answers(x, y, f"{path}/{i}")
            if d:
                return d
        return None
    if a != b:
        return {"path": path, "a": _s(a), "b": _s(b)}
    return None


def _s(x):
    s = repr(x)
    return s if len(s) < 300 else s[:300] + "..."
