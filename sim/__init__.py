"""qcosim - deterministic simulation with fault injection for QCoCircuits (see /verif/DESIGN.md)."""
