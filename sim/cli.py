"""
./check <ID> --tier quick|thorough [--replay FILE] [--budget S] [--jobs N]

exit 0  property held on everything explored (known findings are printed as KNOWN-FINDING lines)
exit 1  VIOLATION property=<id> replay=<path>
exit 2  HARNESS-ERROR / HARNESS-NONREPLAYABLE / HARNESS-TIMEOUT (never a pass, never a violation)
"""
import argparse
import json
import os
import sys
import time

VERIF = os.path.dirname(os.path.dirname(os.path.abspath(__file__)))
if VERIF not in sys.path:
    sys.path.insert(0, VERIF)

from sim import runner  # noqa: E402

CLAIMED = ["C01", "C02", "C03", "C04", "C05", "C06", "C07", "C08", "C11", "C15", "C18"]

RULES = {
    "rule": ("run descriptors (1-3 caller sessions, 6-28 steps: mutations, observers, override windows, memo flushes, "
             "sink failures, GC) are generated from run seed = sha256(VERIF_SEED:index); each is executed three ways "
             "(perturbed P, quiescent replays Q(i)/Q*(i), reference model M(i)) and every cross-checked observation "
             "point is an oracle evaluation. distinct = distinct step lists (hash); non-trivial = contains a mutation "
             "after an observer and at least one cross-checked observation point"),
}

ASSUMPTIONS = [
    "sampling, not enumeration: a clean batch is evidence, not proof",
    "bounds: quick <=28 steps/run and <=4 qubits, thorough <=42 steps and <=5 qubits; ~1% (quick) / ~2% (thorough) long runs of 110-300 steps with up to 320 operations per circuit; nesting depth <=3, unrolled size <=120 operations (400 in long runs), dyadic durations (exact float arithmetic)",
    "caller sessions are interleaved sequentially; no pre-emption inside a library call (no property promises thread safety)",
    "duration sources exercised: global registry (boot file, override windows), fixed, DurationRegistry; user callables (DynamicDurationStrategy) and direct field assignment are outside the workload",
    "a sub-circuit's explicit relation to an operation of its future parent cannot be expressed through add() and is outside the workload",
    "OpenQL Program/Kernel are a recording fake in bulk runs (unique kernel names enforced as real OpenQL does); real OpenQL only in sampled thorough worlds",
    "reference model semantics are written from the property statements; where the statement leaves freedom (ties among equally deep channel-sharing operations, listing order) the model follows the implementation inside the admissible set",
]


def load_known():
    p = os.path.join(VERIF, "known_findings.json")
    if not os.path.exists(p):
        return {"findings": [], "fixed": []}
    with open(p) as f:
        return json.load(f)


def classify(prop, md, finding, known):
    """A violation is a known finding only if its property matches and the oracle's own diagnosis
    (finding.detail.diag, computed from the observation by the oracle) names a listed open finding."""
    diag = (finding.get("detail") or {}).get("diag")
    if not diag:
        return None
    for k in known.get("findings", []):
        if k.get("property") != prop or k.get("status", "open") != "open":
            continue
        if finding["oracle"] not in k.get("oracles", [finding["oracle"]]):
            continue
        if k.get("diag") == diag:
            return k
    return None


def write_evidence(prop, tier, seed, total, n_viol, known_hits, level="exploration", extra=None):
    evdir = os.environ.get("QCOSIM_EVIDENCE_DIR") or os.path.join(VERIF, "evidence")
    os.makedirs(evdir, exist_ok=True)
    wall = total.get("wall", 0.0)
    runs = total["runs"]
    cov = {
        "evaluations": max(runs, 0),
        "distinct_nontrivial": len(total["nontrivial"]),
        "rule": RULES["rule"],
        "samples": total["samples"][:3],
        "runs": runs,
        "runs_per_hour": int(runs / wall * 3600) if wall > 0 else 0,
        "seeds": {"master": seed, "derivation": "run seed = sha256(master:index)[:6]; world w of W takes the indices w + W*k, k = 0, 1, 2, ...", "runs": runs},
        "simulated_time": {"unit": "logical scheduler steps (the system has no clock)", "steps": total["steps"],
                           "mutations": total["mutations"], "observers": total["observers"], "fault_events": total["faults"]},
        "observation_points_cross_checked": total["points"],
        "points_with_model_schedule": total["timed_points"],
        "drawing_points": total["plot_points"],
        "faults_fired": total["fired"],
        "sink_failures_armed_but_not_fired": total["armed_unfired"],
        "observers_aborted_by_sink_failure": total["sinkfail_points"],
        "fault_free_runs": total["fault_free_runs"],
        "fault_injecting_runs": runs - total["fault_free_runs"],
        "probes": total["probes"],
        "operation_kinds_added": total["ops_kinds"],
        "distinct_states": len(total["states"]),
        "distinct_states_measure": "distinct digests of (every observer answer of the perturbed execution, fired faults)",
        "distinct_interleavings": len(total["interleavings"]),
        "distinct_interleavings_measure": "distinct windows of 4 consecutive (session, step kind) pairs",
        "worlds": total["per_world"],
        "points_skipped_model_ambiguous": total["ambiguous_points"],
        "acquisition_points_out_of_scope": total["acq_out_of_scope"],
        "findings_on_other_properties_seen": total["other_props"],
        "real_vs_stub": {
            "real": ["qce_circuit (working tree): structure, language, library constructors, visualization (matplotlib Agg), addon_stim (real stim), addon_openql factories", "PyYAML/json", "functools.lru_cache"],
            "stub": ["file system under the library root (SimFS, in memory)", "OpenQL Program/Kernel/Platform (recording fake; the real OpenQL 0.12.2 compiler in the sampled worlds of the C15 thorough tier, see coverage.worlds)", "uuid4", "tqdm output"],
            "absent": ["threads", "clocks", "network"],
        },
        "known_findings_hit": known_hits,
        "harness_errors": len(total["harness_errors"]),
        "cpu_s": round(total.get("cpu", 0.0), 1),
    }
    if extra:
        cov.update(extra)
    ev = {"property_id": prop, "tier": tier, "seed": int(seed), "level": level, "coverage": cov,
          "assumptions": ASSUMPTIONS, "wall_s": round(wall, 2), "violations": n_viol}
    with open(os.path.join(evdir, f"{prop}.json"), "w") as f:
        json.dump(ev, f, indent=1, sort_keys=True, default=str)


def do_replay(path):
    with open(path) as f:
        rep = json.load(f)
    prop = rep["property"]
    desc = rep["descriptor"]
    res = runner.fresh_call("worker_replay", (prop, desc), hashseed=rep.get("pythonhashseed", 0))
    want = rep["oracle"]
    hit = [f for f in res["findings"] if f["oracle"] == want]
    if hit:
        k = classify(prop, desc, hit[0], load_known())
        if k:
            # the replay reproduces a listed open finding: same line and exit code as the check itself gives
            print(f"KNOWN-FINDING: property={prop} {k['id']}: {k['text']} (reproduced; replay={path})")
            print(json.dumps(hit[0], default=str)[:2000])
            return 0
        print(f"VIOLATION property={prop} replay={path}")
        print(json.dumps(hit[0], default=str)[:2000])
        return 1
    print(f"replay of {path}: oracle {want} did not fire on this tree ({len(res['findings'])} other findings for {prop})")
    return 0


def main(argv=None):
    ap = argparse.ArgumentParser()
    ap.add_argument("prop", nargs="?")
    ap.add_argument("--tier", default=os.environ.get("VERIF_TIER", "quick"))
    ap.add_argument("--replay")
    ap.add_argument("--budget", type=float)
    ap.add_argument("--jobs", type=int, default=int(os.environ.get("VERIF_JOBS", "16")))
    ap.add_argument("--profile")
    a = ap.parse_args(argv)
    if a.replay:
        return do_replay(a.replay)
    prop = a.prop
    if prop not in CLAIMED:
        print(f"unknown or unclaimed property {prop}")
        return 2
    tier = a.tier if a.tier in runner.TIERS else "quick"
    seed = int(os.environ.get("VERIF_SEED", "1"))
    profile = a.profile or prop
    print(f"qcosim check property={prop} tier={tier} VERIF_SEED={seed} jobs={a.jobs}", flush=True)
    os.environ["QCOSIM_TIER"] = tier     # workers inherit it: the thorough tier also widens the generator's bounds
    total = runner.search(prop, profile, tier, seed, a.jobs, budget=a.budget)
    if prop == "C15" and tier == "thorough":
        runner.search_real_openql(prop, profile, seed, a.jobs, 1600, total)
        total["wall"] += total.get("real_openql_wall", 0.0)
    rev, dirty = runner.library_rev()
    known = load_known()
    rc = 0
    n_viol = 0
    known_hits = {}
    if total["harness_errors"]:
        for h in total["harness_errors"][:5]:
            print("HARNESS-ERROR " + json.dumps(h)[:1500])
        rc = 2
    # minimise + replay + classify distinct violations
    seen_oracles = {}
    for v in total["violations"]:
        seen_oracles.setdefault(v["finding"]["oracle"], []).append(v)
    repdir = os.environ.get("QCOSIM_REPLAY_DIR") or os.path.join(VERIF, "replays")
    os.makedirs(repdir, exist_ok=True)
    cfg = runner.TIERS[tier]
    n_done = 0
    nonreplayable = 0
    for oracle, vs in sorted(seen_oracles.items()):
        for v in vs[: 2 if n_done < cfg["max_min"] else 0]:
            n_done += 1
            try:
                m = runner.fresh_call("worker_minimise", (prop, v["desc"], v["finding"], 300))
            except Exception as e:
                print(f"HARNESS-ERROR minimisation failed: {type(e).__name__}: {e}")
                rc = 2
                continue
            if m["finding"] is None:
                print(f"HARNESS-NONREPLAYABLE property={prop} oracle={oracle} run_index={v['desc'].get('run_index')} (did not reproduce in a fresh process)")
                nonreplayable += 1
                continue
            md = m["desc"]
            # replay once more in another fresh interpreter, under a different hash seed
            try:
                rr = runner.fresh_call("worker_replay", (prop, md), hashseed=7)
            except Exception as e:
                print(f"HARNESS-ERROR replay failed: {type(e).__name__}: {e}")
                rc = 2
                continue
            if not any(f["oracle"] == oracle for f in rr["findings"]):
                print(f"HARNESS-NONREPLAYABLE property={prop} oracle={oracle} run_index={v['desc'].get('run_index')} (minimised run did not replay under another hash seed)")
                nonreplayable += 1
                continue
            k = classify(prop, md, m["finding"], known)
            tag = k["id"] if k else "violation"
            path = os.path.join(repdir, f"{prop}-{seed}-{md.get('run_index', 0)}-{oracle.replace('/', '_').replace(':', '_')[:40]}.json")
            with open(path, "w") as f:
                json.dump({"format": 1, "property": prop, "oracle": oracle, "finding": m["finding"], "descriptor": md,
                           "pythonhashseed": 0, "library_rev": rev, "library_dirty": dirty, "classified": tag,
                           "minimisation_evaluations": m["evals"]}, f, indent=1, default=str)
            if k:
                known_hits[k["id"]] = known_hits.get(k["id"], 0) + 1
                print(f"KNOWN-FINDING: property={prop} {k['id']}: {k['text']} (replay={path})")
            else:
                n_viol += 1
                print(f"VIOLATION property={prop} replay={path}")
                print("  oracle=" + oracle + " steps=" + str(len(md["steps"])) + " detail=" + json.dumps(m["finding"]["detail"], default=str)[:600])
                print("  boot=" + md["boot"] + " minimised_steps=" + json.dumps(md["steps"], default=str))
                rc = 1   # a violation confirmed by a fresh-interpreter replay is reported as such, whatever else went wrong
    # known findings diagnosed by the oracles during the search: one line per listed finding, with a minimised replay
    for kid, n in sorted(total.get("known", {}).items()):
        known_hits[kid] = known_hits.get(kid, 0) + n
        entry = [k for k in known.get("findings", []) if k["id"] == kid][0]
        sample = total["known_samples"].get(kid)
        path = os.path.join(repdir, f"{prop}-known-{kid[:40]}.json")
        try:
            m = runner.fresh_call("worker_minimise", (prop, sample["desc"], sample["finding"], 150))
            md = m["desc"] if m["finding"] is not None else sample["desc"]
            fnd = m["finding"] or sample["finding"]
        except Exception as e:
            md, fnd = sample["desc"], sample["finding"]
        with open(path, "w") as f:
            json.dump({"format": 1, "property": prop, "oracle": fnd["oracle"], "finding": fnd, "descriptor": md,
                       "pythonhashseed": 0, "library_rev": rev, "library_dirty": dirty, "classified": kid}, f, indent=1, default=str)
        print(f"KNOWN-FINDING: property={prop} {kid}: {entry['text']} ({n} runs; replay={path})")
    # listed open findings this run did not reach (rare histories in a short budget): still one line each
    for k in known.get("findings", []):
        if k.get("property") == prop and k.get("status", "open") == "open" and k["id"] not in known_hits:
            print(f"KNOWN-FINDING: property={prop} {k['id']}: {k['text']} (listed in known_findings.json; not reached by this run's sample)")
    if nonreplayable and n_viol == 0 and rc == 0:
        rc = 2   # something fired that no fresh process reproduces: a harness problem, never a pass
    unclassified_rest = sum(len(vs) for vs in seen_oracles.values()) - n_done
    write_evidence(prop, tier, seed, total, n_viol, known_hits, extra={"library_rev": rev, "library_dirty": dirty,
                   "violating_runs_seen": len(total["violations"]) + total["more_violations"],
                   "violations_not_minimised": max(0, unclassified_rest)})
    print(f"runs={total['runs']} points={total['points']} wall={total['wall']:.1f}s runs/h={int(total['runs'] / max(total['wall'], 1e-9) * 3600)} "
          f"violations={n_viol} known={known_hits} harness_errors={len(total['harness_errors'])}")
    return rc


if __name__ == "__main__":
    sys.exit(main())
