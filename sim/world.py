"""
World: one CPython process booted so that every source of nondeterminism QCoCircuits can meet is
owned by the simulator (DESIGN.md 3.1).

* SimFS      - the library's config files under its ROOT_DIR are served from memory
* sink gates - matplotlib / stim / OpenQL / SimFS-read calls can be armed to fail on the n-th call
* uuid4      - counter based
* gc         - disabled; collection is a scheduled step
* OpenQL     - recording fake Program/Kernel (bulk) or the real library (sampled worlds)

Nothing here imports qce_circuit before `boot()` has installed SimFS.
"""
import builtins
import gc
import io
import json
import os
import sys
import uuid
import warnings

REPO_SRC = os.environ.get("QCOSIM_REPO_SRC", "/repo/src")
GUARD_ENV = "MINISEAN_QCOCIRCUITS_VERIF"


class SimSinkError(Exception):
    """Raised by an armed sink gate: an external call failed in the middle of a query/drawing/export."""


class HarnessError(Exception):
    """Something is wrong with the simulator itself (never a property violation)."""


BOOT_CONFIGS = {
    # boot id -> content of config_default_operation_durations.yaml (None = file absent at import)
    "absent": None,
    "shipped": {"readout": 2.0, "microwave": 1.0, "flux": 1.0, "reset": 2.0},
    "seeded-1": {"readout": 3.0, "microwave": 0.5, "flux": 1.5, "reset": 5.0},
    "seeded-2": {"readout": 1.0, "microwave": 2.0, "flux": 0.25, "reset": 0.0},
}
BOOT_IDS = list(BOOT_CONFIGS)

_CONFIG_NAMES = (
    "config_default_operation_durations.yaml",
    "config_circuit_noise.yaml",
    "config_circuit_style.yaml",
    "config_layout_style.yaml",
    "config_openql_output.yaml",
    "config_openql_platform.json",
)


def _durations_yaml(d):
    return (
        "_global_registry:\n"
        f"  default_allocated_flux_duration: {d['flux']}\n"
        f"  default_allocated_microwave_duration: {d['microwave']}\n"
        f"  default_allocated_readout_duration: {d['readout']}\n"
        f"  default_allocated_reset_duration: {d['reset']}\n"
    )


class _MemFile(io.StringIO):
    def __init__(self, fs, path, initial="", append=False):
        super().__init__()
        self._fs, self._path = fs, path
        if append:
            self.write(initial)

    def close(self):
        if not self.closed:
            self._fs.files[self._path] = self.getvalue()
        super().close()


class SimFS:
    """In-memory overlay for the library's config files (and its temp/ directory)."""

    def __init__(self, root, world):
        self.root = os.path.abspath(root)
        self.files = {}
        self.world = world
        self.reads = 0
        self.writes = 0
        self._real_open = builtins.open
        self._real_exists = os.path.exists
        self._real_isfile = os.path.isfile
        self._real_makedirs = os.makedirs

    def owns(self, path):
        try:
            p = os.path.abspath(os.fspath(path))
        except TypeError:
            return None
        if os.path.dirname(p) == self.root and os.path.basename(p) in _CONFIG_NAMES:
            return p
        tmp = os.path.join(self.root, "temp")
        if p == tmp or p.startswith(tmp + os.sep):
            return p
        return None

    def install(self):
        fs = self

        def sim_open(file, mode="r", *args, **kwargs):
            p = fs.owns(file) if isinstance(file, (str, bytes, os.PathLike)) else None
            if p is None:
                return fs._real_open(file, mode, *args, **kwargs)
            if "b" in mode:
                raise HarnessError(f"SimFS: binary mode not expected for {p}")
            if "r" in mode and "+" not in mode:
                fs.world.gate("fs.read")
                if p not in fs.files:
                    raise FileNotFoundError(2, "No such file or directory (SimFS)", p)
                fs.reads += 1
                return io.StringIO(fs.files[p])
            fs.writes += 1
            return _MemFile(fs, p, fs.files.get(p, ""), append="a" in mode)

        def sim_exists(path):
            p = fs.owns(path)
            if p is None:
                return fs._real_exists(path)
            return p in fs.files or p == os.path.join(fs.root, "temp") or any(k.startswith(p + os.sep) for k in fs.files)

        def sim_isfile(path):
            p = fs.owns(path)
            if p is None:
                return fs._real_isfile(path)
            return p in fs.files

        def sim_makedirs(name, mode=0o777, exist_ok=False):
            if fs.owns(name) is not None:
                return None
            return fs._real_makedirs(name, mode=mode, exist_ok=exist_ok)

        builtins.open = sim_open
        io.open = sim_open
        os.path.exists = sim_exists
        os.path.isfile = sim_isfile
        os.makedirs = sim_makedirs


class FakeKernel:
    """Recording stand-in for openql.Kernel: records calls, enforces what the exporter relies on."""
    KNOWN_GATES = None  # filled from the real platform json on first use (lazy; None = accept all)

    def __init__(self, world, name):
        self._w, self.name, self.calls = world, name, []

    def gate(self, name, qubits, *a, **k):
        self._w.gate("oql.call")
        q = [qubits] if isinstance(qubits, int) else list(qubits)
        self.calls.append(["gate", name, [int(x) for x in q]])

    def cz(self, q0, q1):
        self._w.gate("oql.call")
        self.calls.append(["gate", "cz", [int(q0), int(q1)]])

    def barrier(self, qubits):
        self._w.gate("oql.call")
        self.calls.append(["barrier", [int(x) for x in qubits]])

    def wait(self, qubits, duration):
        self._w.gate("oql.call")
        if not isinstance(duration, int):
            raise TypeError("wait duration must be int")
        self.calls.append(["wait", [int(x) for x in qubits], duration])


class FakeProgram:
    def __init__(self, world, name):
        self._w, self.name, self.items = world, name, []

    def add_kernel(self, kernel):
        self._w.gate("oql.call")
        names = self._kernel_names()
        if kernel.name in names:
            raise RuntimeError(f"duplicate kernel name '{kernel.name}'")
        self.items.append(["kernel", kernel.name, kernel.calls])

    def add_program(self, program):
        self._w.gate("oql.call")
        mine = self._kernel_names()
        for n in program._kernel_names():
            if n in mine:
                raise RuntimeError(f"duplicate kernel name '{n}'")
        self.items.append(["program", program.name, program.items])

    def _kernel_names(self):
        out = []
        for it in self.items:
            if it[0] == "kernel":
                out.append(it[1])
            else:
                out.extend(_names_of(it[2]))
        return out

    def flat(self):
        """Kernel bodies in emission order: list of [kernel_name, calls]."""
        return _flat(self.items)


def _names_of(items):
    out = []
    for it in items:
        if it[0] == "kernel":
            out.append(it[1])
        else:
            out.extend(_names_of(it[2]))
    return out


def _flat(items):
    out = []
    for it in items:
        if it[0] == "kernel":
            out.append([it[1], it[2]])
        else:
            out.extend(_flat(it[2]))
    return out


class World:
    def __init__(self):
        self.booted = False
        self.boot_id = None
        self.armed = None          # remaining gated calls before failure
        self.fired = None          # name of the gate that fired in the current step
        self.gate_calls = {}       # gate name -> number of calls (since boot)
        self.step_gate_calls = 0   # gated calls inside the current step
        self.uuid_counter = 0
        self.lib = None
        self.real_openql = False
        self.rebuild_gate_on = False
        self.taps = None
        self.boot_get_registry_at = None

    # ------------------------------------------------------------------ gates
    def gate(self, name):
        self.gate_calls[name] = self.gate_calls.get(name, 0) + 1
        self.step_gate_calls += 1
        if self.armed is not None:
            self.armed -= 1
            if self.armed <= 0:
                self.armed = None
                self.fired = name
                raise SimSinkError(name)

    def arm(self, n):
        self.armed = n
        self.fired = None

    def disarm(self):
        was = self.armed
        self.armed = None
        return was

    # ------------------------------------------------------------------- boot
    def boot(self, boot_id="shipped", real_openql=False, work_dir=None):
        if self.booted:
            raise HarnessError("world already booted")
        if "qce_circuit" in sys.modules:
            raise HarnessError("qce_circuit imported before World.boot")
        self.boot_id = boot_id
        self.real_openql = real_openql
        os.environ.setdefault("MPLBACKEND", "Agg")
        os.environ["TQDM_DISABLE"] = "1"
        os.environ[GUARD_ENV] = "1"
        warnings.simplefilter("ignore")
        root = os.path.dirname(os.path.abspath(REPO_SRC))
        self.fs = SimFS(root, self)
        cfg = BOOT_CONFIGS[boot_id]
        if cfg is not None:
            self.fs.files[os.path.join(root, "config_default_operation_durations.yaml")] = _durations_yaml(cfg)
        if real_openql:
            if work_dir is None:
                raise HarnessError("real OpenQL world needs a work_dir")
            os.makedirs(work_dir, exist_ok=True)
            self.real_work_dir = work_dir
            self.fs.files[os.path.join(root, "config_openql_output.yaml")] = (
                f"openql_output_directory: {work_dir}/out\n"
                f"openql_platform_file_path: {work_dir}/platform.json\n"
            )
        self.fs.install()
        self._install_uuid()
        sys.path[0:0] = [REPO_SRC]
        import qce_circuit  # noqa: F401  (the working tree)
        if not os.path.abspath(qce_circuit.__file__).startswith(os.path.abspath(REPO_SRC)):
            raise HarnessError(f"qce_circuit imported from {qce_circuit.__file__}, expected {REPO_SRC}")
        from sim import lib as libmod
        self.lib = libmod.load()
        warnings.resetwarnings()
        warnings.simplefilter("ignore")
        self.boot_durations = dict(cfg) if cfg is not None else dict(BOOT_CONFIGS["shipped"])
        self.boot_get_registry_at = self.lib.GlobalDurationRegistry.__dict__["get_registry_at"]
        self._install_mpl_gates()
        self._install_stim_gate()
        if real_openql:
            self._prepare_real_openql(work_dir)
        else:
            self._install_fake_openql()
        self.tables = libmod.calibrate(self.lib)
        self._install_taps()
        self._install_rebuild_gate()
        self._collect_process_state()
        gc.disable()
        gc.collect()
        gc.freeze()   # boot objects are immortal: scheduled collections only look at run objects
        self.booted = True
        return self

    def _install_uuid(self):
        w = self

        def sim_uuid4():
            w.uuid_counter += 1
            return uuid.UUID(int=(0x5EED << 96) | w.uuid_counter, version=4)

        uuid.uuid4 = sim_uuid4

    def _install_mpl_gates(self):
        import matplotlib
        matplotlib.use("Agg", force=True)
        import matplotlib.pyplot as plt
        from matplotlib.axes import Axes
        w = self

        def wrap(owner, attr, gate_name):
            real = getattr(owner, attr)

            def gated(*a, **k):
                w.gate(gate_name)
                return real(*a, **k)

            gated.__name__ = getattr(real, "__name__", attr)
            setattr(owner, attr, gated)

        wrap(plt, "subplots", "mpl.subplots")
        wrap(Axes, "add_patch", "mpl.add_patch")
        wrap(Axes, "text", "mpl.text")
        wrap(Axes, "plot", "mpl.plot")
        self.plt = plt

    def _install_stim_gate(self):
        import stim
        w = self
        real = stim.CircuitInstruction

        def gated_instruction(*a, **k):
            w.gate("stim.instr")
            return real(*a, **k)

        stim.CircuitInstruction = gated_instruction
        self.stim = stim
        self.stim_real_instruction = real

    def _install_fake_openql(self):
        w = self
        pm = self.lib.PlatformManager

        def construct_program(cls, name):
            w.gate("oql.call")
            return FakeProgram(w, name)

        def construct_kernel(cls, name):
            w.gate("oql.call")
            return FakeKernel(w, name)

        pm.construct_program = classmethod(construct_program)
        pm.construct_kernel = classmethod(construct_kernel)

    def _prepare_real_openql(self, work_dir):
        pm = self.lib.PlatformManager
        cfg = pm._default_config_platform()
        with self.fs._real_open(os.path.join(work_dir, "platform.json"), "w") as f:
            json.dump(cfg, f, indent=4)
        os.makedirs(os.path.join(work_dir, "out"), exist_ok=True)

    def _install_rebuild_gate(self):
        """Fault point inside flatten's rebuild loop (one call per re-placed operation): lets the scheduler make
        the n-th placement fail, i.e. an exception in the middle of an in-place rebuild."""
        cgb = self.lib.CircuitGraphBranch
        if cgb is None or "add_to_graph" not in vars(cgb):
            return
        raw = vars(cgb)["add_to_graph"]
        real = raw.__func__ if isinstance(raw, staticmethod) else raw
        w = self

        def gated_add_to_graph(*a, **k):
            if w.rebuild_gate_on:
                w.gate("graph.add")
            return real(*a, **k)

        cgb.add_to_graph = staticmethod(gated_add_to_graph)

    def _install_taps(self):
        """Observation taps around the drawing (harness side, call through unchanged)."""
        w = self
        dc = self.lib.display_circuit
        tc = self.lib.TransformConstructor
        self.taps = {"descriptions": [], "pivots": [], "components": []}
        if not hasattr(dc, "plot_circuit_description") or "identifier_to_pivot" not in vars(tc):
            return   # refactored away: the drawing is then only checked for its side effects
        real_pcd = dc.plot_circuit_description

        def tapped_pcd(description, **kwargs):
            w.taps["descriptions"].append(description)
            return real_pcd(description, **kwargs)

        dc.plot_circuit_description = tapped_pcd
        real_itp = tc.identifier_to_pivot

        def tapped_itp(self_, identifier, time_component):
            v = real_itp(self_, identifier, time_component)
            w.taps["pivots"].append((time_component, identifier.id, v.x, v.y))
            return v

        tc.identifier_to_pivot = tapped_itp
        # where an individually drawn operation finally lands (its rectilinear transform)
        self.taps["components"] = []
        dcf = self.lib.DrawComponentFactoryManager
        if dcf is not None and "construct" in vars(dcf):
            real_construct = vars(dcf)["construct"]

            def tapped_construct(self_, operation, transform_constructor):
                comp = real_construct(self_, operation, transform_constructor)
                try:
                    t = comp.rectilinear_transform
                    w.taps["components"].append((operation, float(t.origin_pivot.x), float(t.pivot.y), float(t.width), float(t.height)))
                except Exception:
                    pass
                return comp

            dcf.construct = tapped_construct

    # ------------------------------------------------------------------ process-global library state
    def _collect_process_state(self):
        """Every execution (P, Q(i), Q*(i)) must start from what a fresh process would have. Besides the two
        start-time memos the library may keep other process-wide state: functools caches and module- or
        class-level containers. They are found generically at boot (so state added by a changed library is
        found too): caches are cleared and containers restored to their boot content at every reset."""
        import weakref
        caches, containers = [], []
        seen = set()

        def consider(owner, name, val):
            if id(val) in seen:
                return
            cc = getattr(val, "cache_clear", None)
            if callable(cc) and hasattr(val, "cache_info"):
                seen.add(id(val))
                caches.append(cc)
            elif isinstance(val, (dict, list, set, weakref.WeakKeyDictionary, weakref.WeakValueDictionary)) and not name.startswith("__"):
                seen.add(id(val))
                try:
                    snap = list(val.items()) if hasattr(val, "items") else list(val)
                except Exception:
                    return
                containers.append((val, snap))

        for mname, mod in list(sys.modules.items()):
            if not (mname == "qce_circuit" or mname.startswith("qce_circuit.")) or mod is None:
                continue
            for name, val in list(vars(mod).items()):
                consider(mod, name, val)
                import enum
                if isinstance(val, type) and getattr(val, "__module__", "").startswith("qce_circuit") and not issubclass(val, enum.Enum):
                    for an, av in list(vars(val).items()):
                        f = av.__func__ if isinstance(av, (staticmethod, classmethod)) else av
                        consider(val, an, f)
        self._caches = caches
        self._containers = containers

    def restore_process_state(self):
        for cc in self._caches:
            cc()
        for cont, snap in self._containers:
            try:
                cont.clear()
                if hasattr(cont, "update") and not isinstance(cont, set):
                    cont.update(snap)
                elif isinstance(cont, set):
                    cont.update(snap)
                else:
                    cont.extend(snap)
            except Exception:
                pass

    # ------------------------------------------------------------------ reset
    def flush_memo(self, which="both"):
        L = self.lib
        n = 0
        for name, cls in (("single", L.RelationLink), ("multi", L.MultiRelationLink)):
            if which in (name, "both"):
                fn = cls.__dict__.get("get_start_time")
                cc = getattr(fn, "cache_clear", None)
                if cc is not None:
                    cc()
                    n += 1
        hook = getattr(self.lib, "invalidate_hook", None)
        return n

    def memo_sizes(self):
        L = self.lib
        out = []
        for cls in (L.RelationLink, L.MultiRelationLink):
            fn = cls.__dict__.get("get_start_time")
            ci = getattr(fn, "cache_info", None)
            out.append(ci().currsize if ci is not None else 0)
        return tuple(out)

    def override_in_force(self):
        """True iff the class-level global duration lookup is not the boot one."""
        return self.lib.GlobalDurationRegistry.__dict__["get_registry_at"] is not self.boot_get_registry_at

    def reset(self):
        """Back to boot state between executions. Returns True iff the global lookup had leaked."""
        leaked = self.override_in_force()
        if leaked:
            self.lib.GlobalDurationRegistry.get_registry_at = self.boot_get_registry_at
        self.disarm()
        self.fired = None
        self.step_gate_calls = 0
        self.flush_memo("both")
        self.restore_process_state()
        self.plt.close("all")
        self.taps["descriptions"].clear()
        self.taps["pivots"].clear()
        self.taps["components"].clear()
        self.uuid_counter = 0
        gc.collect()
        return leaked


WORLD = World()
