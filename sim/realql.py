"""
Sampled real-OpenQL worlds (DESIGN.md 3.9): the exporter talks to the real library, the program is compiled and the
cQASM it writes is parsed back into the call format of the recording fake (which it thereby calibrates).
"""
import os
import re

from sim.world import WORLD

_Q = re.compile(r"q\[(\d+)\]")


def _silence():
    """OpenQL logs from C++ straight to fd 1/2; keep the check's output readable."""
    saved = (os.dup(1), os.dup(2))
    null = os.open(os.devnull, os.O_WRONLY)
    os.dup2(null, 1)
    os.dup2(null, 2)
    os.close(null)
    return saved


def _restore(saved):
    os.dup2(saved[0], 1)
    os.dup2(saved[1], 2)
    os.close(saved[0])
    os.close(saved[1])


def describe(program):
    out_dir = os.path.join(WORLD.real_work_dir, "out")
    saved = _silence()
    try:
        program.compile()
    finally:
        _restore(saved)
    path = os.path.join(out_dir, f"{program.name}.qasm")
    items = []
    cur = None
    with WORLD.fs._real_open(path) as f:
        for line in f:
            line = line.strip()
            if not line or line.startswith("#") or line.startswith("version") or line.startswith("pragma") or line.startswith("qubits"):
                continue
            if line.startswith("."):
                cur = ["kernel", line[1:].split("(")[0].strip(), []]
                items.append(cur)
                continue
            if cur is None:
                cur = ["kernel", "?", []]
                items.append(cur)
            name = line.split()[0]
            qs = [int(x) for x in _Q.findall(line)]
            if name == "barrier":
                cur[2].append(["barrier", qs])
            elif name == "wait":
                n = int(line.split()[1].rstrip(","))
                cur[2].append(["wait", qs, n])
            else:
                cur[2].append(["gate", name, qs])
    for fn in os.listdir(out_dir):
        try:
            os.remove(os.path.join(out_dir, fn))
        except OSError:
            pass
    return {"prog": program.name, "items": items, "wait_unit": "cycles"}
